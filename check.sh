#!/bin/bash
# usage: check.sh <property> [quick|thorough]
# Rebuilds the engine if needed, then verifies /repo's current working tree.
cd "$(dirname "$0")"
if [ ! -x bin/gvc ] || [ -n "$(find gvc -name '*.go' -newer bin/gvc 2>/dev/null | head -1)" ]; then
  ./setup.sh >/dev/null || { echo "ENGINE-ERROR build failed"; exit 2; }
fi
exec ./bin/gvc check --property "$1" --tier "${2:-${VERIF_TIER:-quick}}"
