#!/bin/bash
# Builds the verification engine offline (go1.26.8 + golang.org/x/tools v0.50.0 from the module cache).
set -e
cd "$(dirname "$0")/gvc"
export PATH=/opt/veriftools/go1.26.8/bin:$PATH GOFLAGS=-mod=mod GOPROXY=off GOSUMDB=off GOTOOLCHAIN=local
mkdir -p ../bin
go build -o ../bin/gvc .
echo "gvc built: $(../bin/gvc version 2>/dev/null || true)"
