package main

// Bounded stand-ins: for a function that is not within the verifier's reach a bounded, exhaustive comparison of the
// real function against a specification function may stand in. It is labelled "bounded" everywhere (evidence key
// coverage.bounded, never counted under obligations / discharged), states its bound, runs on /repo's working tree
// through `go test -overlay` (nothing is written into /repo), and a disagreement is a VIOLATION whose replay file
// carries the failing inputs as printed by the run on the real code.

import (
	"encoding/json"
	"fmt"
	"os"
	"os/exec"
	"path/filepath"
	"regexp"
	"strconv"
	"strings"
	"time"
)

type boundedSpec struct {
	Name     string `json:"name"`
	Template string `json:"template"`
	Pkg      string `json:"pkg"`
	Function string `json:"function"`
	Bound    map[string]string `json:"bound"` // tier -> description of the bound
	Param    map[string]string `json:"param"` // tier -> value of GVC_BOUND handed to the test
}

type boundedResult struct {
	Name          string  `json:"name"`
	Function      string  `json:"function"`
	Level         string  `json:"level"`
	Bound         string  `json:"bound"`
	Cases         int     `json:"cases"`
	Disagreements int     `json:"disagreements"`
	Exhaustive    bool    `json:"exhaustive_within_bound"`
	WallS         float64 `json:"wall_s"`
	Output        string  `json:"output,omitempty"`
}

func loadBounded(prop string) []boundedSpec {
	b, err := os.ReadFile(filepath.Join(verifDir, "bounded", "index.json"))
	if err != nil {
		return nil
	}
	var idx map[string][]boundedSpec
	if json.Unmarshal(b, &idx) != nil {
		return nil
	}
	return idx[prop]
}

var boundedLine = regexp.MustCompile(`GVC-BOUNDED cases=(\d+) disagreements=(\d+)`)

// runBounded runs one stand-in; ok=false with an empty violation text means the stand-in could not be run
// (an engine error, never a verdict).
func runBounded(prop, tier string, sp boundedSpec) (res boundedResult, violated bool, err error) {
	res = boundedResult{Name: sp.Name, Function: sp.Function, Level: "bounded", Bound: sp.Bound[tier]}
	src, e := os.ReadFile(filepath.Join(verifDir, "bounded", sp.Template))
	if e != nil {
		return res, false, e
	}
	tmp, e := os.MkdirTemp("", "gvc-bounded-")
	if e != nil {
		return res, false, e
	}
	defer os.RemoveAll(tmp)
	tf := filepath.Join(tmp, "zz_gvc_bounded_test.go")
	os.WriteFile(tf, src, 0o644)
	ov := map[string]map[string]string{"Replace": {filepath.Join(repoDir, sp.Pkg, "zz_gvc_bounded_test.go"): tf}}
	ob, _ := json.Marshal(ov)
	of := filepath.Join(tmp, "overlay.json")
	os.WriteFile(of, ob, 0o644)
	cmd := exec.Command("bash", "-c", fmt.Sprintf("ulimit -v 8000000; cd %s && go test -overlay %s -vet=off -count=1 -timeout 900s -run '^TestGvcBounded$' -v ./%s 2>&1", repoDir, of, sp.Pkg))
	cmd.Env = append(os.Environ(), "GOTOOLCHAIN=auto", "GOFLAGS=-mod=mod", "GVC_BOUND="+sp.Param[tier])
	t0 := time.Now()
	out, runErr := cmd.CombinedOutput()
	res.WallS = float64(int(time.Since(t0).Seconds()*10)) / 10
	s := string(out)
	m := boundedLine.FindStringSubmatch(s)
	if m == nil {
		if len(s) > 3000 {
			s = s[len(s)-3000:]
		}
		return res, false, fmt.Errorf("bounded stand-in %q did not report a result (build failure?):\n%s", sp.Name, s)
	}
	res.Cases, _ = strconv.Atoi(m[1])
	res.Disagreements, _ = strconv.Atoi(m[2])
	res.Exhaustive = true
	if res.Disagreements > 0 || runErr != nil {
		if len(s) > 6000 {
			s = s[:6000] + "\n...[truncated]"
		}
		res.Output = s
		return res, true, nil
	}
	if res.Cases == 0 {
		return res, false, fmt.Errorf("bounded stand-in %q ran zero cases", sp.Name)
	}
	return res, false, nil
}

func writeBoundedReplay(dir, prop string, res boundedResult) string {
	os.MkdirAll(dir, 0o755)
	path := filepath.Join(dir, "bounded_"+sanitize(strings.ReplaceAll(res.Name, " ", "_"))+".json")
	b, _ := json.MarshalIndent(map[string]interface{}{
		"property": prop, "kind": "bounded stand-in (exhaustive within the stated bound, run on the real code)",
		"name": res.Name, "function": res.Function, "bound": res.Bound, "cases": res.Cases, "disagreements": res.Disagreements,
		"output_of_the_run_on_the_real_code": res.Output,
	}, "", " ")
	os.WriteFile(path, append(b, '\n'), 0o644)
	return path
}
