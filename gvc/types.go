package main

import (
	"golang.org/x/tools/go/ssa"
	"fmt"
	"go/types"
	"strings"
)

type Kind int

const (
	KBool Kind = iota
	KInt
	KString
	KPtrStruct // pointer to a struct type: a Ref
	KPtrCell   // pointer to a non-struct type: a cell Ref (or engine-level address)
	KSlice
	KMap
	KChan
	KFunc
	KIface
	KStruct
	KScalarNamed // named type modelled as one Int (time.Time)
	KOpaque      // sync.Mutex etc.: no state
	KArray
	KFloat
	KTuple
	KUnsafe
)

func isOpaqueStruct(t types.Type) bool {
	n, ok := t.(*types.Named)
	if !ok {
		return false
	}
	if n.Obj().Pkg() == nil {
		return false
	}
	if _, isStruct := n.Underlying().(*types.Struct); !isStruct {
		return false
	}
	p := n.Obj().Pkg().Path()
	switch p {
	case "sync", "sync/atomic":
		return true
	}
	return false
}

func isTimeTime(t types.Type) bool {
	n, ok := types.Unalias(t).(*types.Named)
	return ok && n.Obj().Pkg() != nil && n.Obj().Pkg().Path() == "time" && n.Obj().Name() == "Time"
}

func classify(t types.Type) Kind {
	t = types.Unalias(t)
	if isTimeTime(t) {
		return KScalarNamed
	}
	if isOpaqueStruct(t) {
		return KOpaque
	}
	switch tt := t.Underlying().(type) {
	case *types.Basic:
		switch {
		case tt.Info()&types.IsBoolean != 0:
			return KBool
		case tt.Info()&types.IsInteger != 0:
			return KInt
		case tt.Info()&types.IsString != 0:
			return KString
		case tt.Info()&types.IsFloat != 0:
			return KFloat
		case tt.Kind() == types.UnsafePointer:
			return KUnsafe
		case tt.Kind() == types.UntypedNil:
			return KPtrStruct
		}
	case *types.Pointer:
		switch classify(tt.Elem()) {
		case KStruct, KOpaque:
			return KPtrStruct
		}
		return KPtrCell
	case *types.Slice:
		return KSlice
	case *types.Map:
		return KMap
	case *types.Chan:
		return KChan
	case *types.Signature:
		return KFunc
	case *types.Interface:
		return KIface
	case *types.Struct:
		return KStruct
	case *types.Array:
		return KArray
	case *types.Tuple:
		return KTuple
	}
	panic(fmt.Sprintf("classify: unsupported type %s (%T)", t, t.Underlying()))
}

// Slot is one scalar SMT component of a Go value.
type Slot struct {
	Suffix string
	So     Sort
	Int    *intInfo // integer slots: the Go type's range
	T      types.Type
	Ref    bool // the slot holds an object identity (pointer, map, chan, slice backing, interface payload)
}

func (u *Unit) Layout(t types.Type) []Slot {
	t = types.Unalias(t)
	is := u.IntSort()
	i64 := &intInfo{64, true}
	switch classify(t) {
	case KBool:
		return []Slot{{"", SBool, nil, t, false}}
	case KInt:
		ii, _ := intInfoOf(t)
		return []Slot{{"", u.sortOfInt(ii), &ii, t, false}}
	case KString:
		return []Slot{{"", SStr, nil, t, false}}
	case KFloat:
		return []Slot{{"", SReal, nil, t, false}}
	case KPtrStruct, KPtrCell, KMap, KChan, KUnsafe:
		return []Slot{{"", SInt, nil, t, true}}
	case KFunc:
		return []Slot{{"", SInt, nil, t, false}}
	case KScalarNamed:
		return []Slot{{"", SInt, nil, t, false}}
	case KOpaque:
		return nil
	case KSlice:
		return []Slot{{"#ptr", SInt, nil, t, true}, {"#off", is, i64, t, false}, {"#len", is, i64, t, false}, {"#cap", is, i64, t, false}}
	case KIface:
		return []Slot{{"#tag", SInt, nil, t, false}, {"#val", SInt, nil, t, true}}
	case KStruct:
		st := t.Underlying().(*types.Struct)
		var out []Slot
		for i := 0; i < st.NumFields(); i++ {
			f := st.Field(i)
			for _, s := range u.Layout(f.Type()) {
				s.Suffix = "." + f.Name() + s.Suffix
				out = append(out, s)
			}
		}
		return out
	case KArray:
		at := t.Underlying().(*types.Array)
		var out []Slot
		if at.Len() > 16 {
			panic(fmt.Sprintf("array type %s too large for the value model", t))
		}
		for i := int64(0); i < at.Len(); i++ {
			for _, s := range u.Layout(at.Elem()) {
				s.Suffix = fmt.Sprintf("[%d]%s", i, s.Suffix)
				out = append(out, s)
			}
		}
		return out
	case KTuple:
		tt := t.(*types.Tuple)
		var out []Slot
		for i := 0; i < tt.Len(); i++ {
			for _, s := range u.Layout(tt.At(i).Type()) {
				s.Suffix = fmt.Sprintf("<%d>%s", i, s.Suffix)
				out = append(out, s)
			}
		}
		return out
	}
	panic("Layout: " + t.String())
}

// structKey names a struct type for heap components.
func structKey(t types.Type) string {
	t = types.Unalias(t)
	if n, ok := t.(*types.Named); ok {
		if n.Obj().Pkg() != nil {
			return shortPkg(n.Obj().Pkg().Path()) + "." + n.Obj().Name()
		}
		return n.Obj().Name()
	}
	return sanitize(types.TypeString(t, func(p *types.Package) string { return shortPkg(p.Path()) }))
}

func typeKey(t types.Type) string {
	return sanitize(types.TypeString(types.Unalias(t), func(p *types.Package) string { return shortPkg(p.Path()) }))
}

const repoMod = "github.com/DrmagicE/gmqtt"

func shortPkg(p string) string {
	if p == repoMod {
		return "gmqtt"
	}
	p = strings.TrimPrefix(p, repoMod+"/")
	return strings.ReplaceAll(p, "/", ".")
}

// Val is a symbolic Go value.
type Val struct {
	T types.Type
	S []Term   // scalar slots per Layout(T)
	P *PtrVal  // engine-level pointer (T is a pointer type); S unused
	F *Closure // engine-level function value
	Re func(ii intInfo) Term // untyped integer expressions (T == nil): rebuild at a given integer type
	GT types.Type            // ghost array values (T == nil, S[0] of array sort): the Go type of the elements
	GK types.Type            // ... and of the keys
}

func (v Val) One() Term {
	if len(v.S) != 1 {
		panic(fmt.Sprintf("value of type %v has %d slots, expected 1", v.T, len(v.S)))
	}
	return v.S[0]
}

func scalar(t types.Type, x Term) Val { return Val{T: t, S: []Term{x}} }

// Closure is a function value whose code is known.
type Closure struct {
	Fn       *ssa.Function
	Bindings []Val
	Recv     *Val // bound method receiver
}

// AddrKind enumerates what an engine-level address designates.
type AddrKind int

const (
	ALocal AddrKind = iota // a local variable (or a sub-path of it)
	AField                 // field of a heap struct object
	ACell                  // cell heap location
	AElem                  // slice/array element
	AGlobal
	ANil
)

// Addr is a statically resolved address.
type Addr struct {
	Kind  AddrKind
	T     types.Type // pointee type
	Var   string     // ALocal: state variable key ; AGlobal: global name
	Path  []int      // ALocal/AGlobal/AElem: slot sub-range path (field indices)
	Ref   Term       // AField: object ref; ACell: cell ref; AElem: backing ref
	Owner types.Type // AField: struct type owning the field
	Field int        // AField: field index
	Idx   Term       // AElem: index (already including slice offset)
	ElemT types.Type // AElem: element type of the backing array
}

type PtrAlt struct {
	Guard Term
	A     Addr
}

// PtrVal is a guarded set of possible addresses.
type PtrVal struct {
	Alts []PtrAlt
}

func ptrTo(a Addr) *PtrVal { return &PtrVal{Alts: []PtrAlt{{True, a}}} }

// slotRange returns the [lo,hi) slot interval of field path within type t.
func (u *Unit) slotRange(t types.Type, path []int) (int, int, types.Type) {
	lo := 0
	for _, fi := range path {
		switch tt := types.Unalias(t).Underlying().(type) {
		case *types.Struct:
			for i := 0; i < fi; i++ {
				lo += len(u.Layout(tt.Field(i).Type()))
			}
			t = tt.Field(fi).Type()
		case *types.Array:
			lo += fi * len(u.Layout(tt.Elem()))
			t = tt.Elem()
		default:
			panic("slotRange: not a struct/array")
		}
	}
	return lo, lo + len(u.Layout(t)), t
}
