package main

import (
	"fmt"
	"math/big"
	"strings"
)

// Sort is an SMT-LIB sort, written out.
type Sort string

const (
	SInt  Sort = "Int"
	SBool Sort = "Bool"
	SStr  Sort = "Str"
	SReal Sort = "Real"
)

func BVSort(w int) Sort       { return Sort(fmt.Sprintf("(_ BitVec %d)", w)) }
func ArrSort(i, e Sort) Sort  { return Sort(fmt.Sprintf("(Array %s %s)", i, e)) }
func (s Sort) IsBV() bool     { return strings.HasPrefix(string(s), "(_ BitVec") }
func (s Sort) IsArray() bool  { return strings.HasPrefix(string(s), "(Array") }
func (s Sort) BVWidth() int {
	var w int
	fmt.Sscanf(string(s), "(_ BitVec %d)", &w)
	return w
}

// ElemSort returns the element sort of an array sort.
func (s Sort) ElemSort() Sort {
	_, e := splitArr(string(s))
	return Sort(e)
}
func (s Sort) IdxSort() Sort {
	i, _ := splitArr(string(s))
	return Sort(i)
}

func splitArr(s string) (string, string) {
	// "(Array I E)"
	s = strings.TrimPrefix(s, "(Array ")
	s = strings.TrimSuffix(s, ")")
	depth := 0
	for i, c := range s {
		switch c {
		case '(':
			depth++
		case ')':
			depth--
		case ' ':
			if depth == 0 {
				return s[:i], s[i+1:]
			}
		}
	}
	return s, ""
}

// Term is an SMT-LIB term with its sort.
type Term struct {
	S  string
	So Sort
}

var (
	True  = Term{"true", SBool}
	False = Term{"false", SBool}
)

func (t Term) IsTrue() bool  { return t.S == "true" }
func (t Term) IsFalse() bool { return t.S == "false" }
func (t Term) Valid() bool   { return t.S != "" }

func App(op string, so Sort, args ...Term) Term {
	var b strings.Builder
	b.WriteByte('(')
	b.WriteString(op)
	for _, a := range args {
		b.WriteByte(' ')
		b.WriteString(a.S)
	}
	b.WriteByte(')')
	return Term{b.String(), so}
}

func IntLit(n int64) Term {
	if n < 0 {
		return Term{fmt.Sprintf("(- %d)", -n), SInt}
	}
	return Term{fmt.Sprintf("%d", n), SInt}
}

func BigLit(n *big.Int) Term {
	if n.Sign() < 0 {
		return Term{fmt.Sprintf("(- %s)", new(big.Int).Neg(n).String()), SInt}
	}
	return Term{n.String(), SInt}
}

func BVLit(n *big.Int, w int) Term {
	m := new(big.Int).Lsh(big.NewInt(1), uint(w))
	v := new(big.Int).Mod(n, m)
	return Term{fmt.Sprintf("(_ bv%s %d)", v.String(), w), BVSort(w)}
}

func And(ts ...Term) Term {
	var out []Term
	for _, t := range ts {
		if t.IsTrue() {
			continue
		}
		if t.IsFalse() {
			return False
		}
		out = append(out, t)
	}
	switch len(out) {
	case 0:
		return True
	case 1:
		return out[0]
	}
	return App("and", SBool, out...)
}

func Or(ts ...Term) Term {
	var out []Term
	for _, t := range ts {
		if t.IsFalse() {
			continue
		}
		if t.IsTrue() {
			return True
		}
		out = append(out, t)
	}
	switch len(out) {
	case 0:
		return False
	case 1:
		return out[0]
	}
	return App("or", SBool, out...)
}

func Not(t Term) Term {
	if t.IsTrue() {
		return False
	}
	if t.IsFalse() {
		return True
	}
	if strings.HasPrefix(t.S, "(not ") {
		return Term{t.S[5 : len(t.S)-1], SBool}
	}
	return App("not", SBool, t)
}

func Implies(a, b Term) Term {
	if a.IsTrue() {
		return b
	}
	if a.IsFalse() || b.IsTrue() {
		return True
	}
	return App("=>", SBool, a, b)
}

func Ite(c, a, b Term) Term {
	if c.IsTrue() {
		return a
	}
	if c.IsFalse() {
		return b
	}
	if a.S == b.S {
		return a
	}
	return App("ite", a.So, c, a, b)
}

func Eq(a, b Term) Term {
	if a.S == b.S {
		return True
	}
	if a.So != b.So {
		panic(fmt.Sprintf("Eq: sort mismatch %s:%s vs %s:%s", a.S, a.So, b.S, b.So))
	}
	return App("=", SBool, a, b)
}

func Neq(a, b Term) Term { return Not(Eq(a, b)) }

func Select(a, i Term) Term {
	return App("select", a.So.ElemSort(), a, i)
}

func Store(a, i, v Term) Term {
	if v.So != a.So.ElemSort() {
		panic(fmt.Sprintf("Store: sort mismatch array %s elem %s:%s", a.So, v.S, v.So))
	}
	return App("store", a.So, a, i, v)
}

func Le(a, b Term) Term { return App("<=", SBool, a, b) }
func Lt(a, b Term) Term { return App("<", SBool, a, b) }
func Ge(a, b Term) Term { return App(">=", SBool, a, b) }
func Gt(a, b Term) Term { return App(">", SBool, a, b) }
func Add(a, b Term) Term {
	if b.S == "0" {
		return a
	}
	if a.S == "0" {
		return b
	}
	return App("+", SInt, a, b)
}
func Sub(a, b Term) Term {
	if b.S == "0" {
		return a
	}
	return App("-", SInt, a, b)
}

func pow2(w int) *big.Int { return new(big.Int).Lsh(big.NewInt(1), uint(w)) }

// sanitize turns an arbitrary string into an SMT simple symbol.
func sanitize(s string) string {
	var b strings.Builder
	for _, c := range s {
		switch {
		case c >= 'a' && c <= 'z', c >= 'A' && c <= 'Z', c >= '0' && c <= '9', c == '_', c == '.', c == '$', c == '@', c == '%', c == '!':
			b.WriteRune(c)
		case c == '#':
			b.WriteByte('%')
		case c == '/':
			b.WriteByte('.')
		case c == '*':
			b.WriteString("ptr.")
		case c == '[':
			b.WriteString("_L")
		case c == ']':
			b.WriteString("R_")
		default:
			b.WriteByte('_')
		}
	}
	return b.String()
}
