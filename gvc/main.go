package main

import (
	"flag"
	"fmt"
	"os"
	"sort"
	"strings"
	"time"
)

func env(k, d string) string {
	if v := os.Getenv(k); v != "" {
		return v
	}
	return d
}

var (
	repoDir    = env("GVC_REPO", "/repo")
	verifDir   = env("GVC_VERIF", "/verif")
	trustedDir = ""
)

func main() {
	if len(os.Args) < 2 {
		fmt.Fprintln(os.Stderr, "usage: gvc ssa|verify|check ...")
		os.Exit(2)
	}
	trustedDir = verifDir + "/trusted"
	os.Setenv("PATH", "/opt/veriftools/go1.26.8/bin:"+os.Getenv("PATH"))
	os.Setenv("GOFLAGS", "-mod=mod")
	os.Setenv("GOPROXY", "off")
	os.Setenv("GOSUMDB", "off")
	os.Setenv("GOTOOLCHAIN", "local")
	switch os.Args[1] {
	case "ssa":
		cmdSSA(os.Args[2:])
	case "verify":
		cmdVerify(os.Args[2:])
	case "check":
		cmdCheck(os.Args[2:])
	case "selftest":
		cmdSelftest(os.Args[2:])
	default:
		fmt.Fprintln(os.Stderr, "unknown command", os.Args[1])
		os.Exit(2)
	}
}

func cmdSSA(args []string) {
	fs := flag.NewFlagSet("ssa", flag.ExitOnError)
	pk := fs.String("pkg", "./...", "package pattern")
	fs.Parse(args)
	prog, err := LoadProgram(repoDir, strings.Split(*pk, ","))
	if err != nil {
		fmt.Fprintln(os.Stderr, err)
		os.Exit(2)
	}
	for _, pat := range fs.Args() {
		for _, f := range prog.FindFuncs(pat) {
			f.WriteTo(os.Stdout)
			for li, l := range findLoops(f) {
				fmt.Printf("# loop %d head block %d\n", l.ordinal, li.Index)
			}
		}
	}
}

// packages that contain contracts (derived from the contract file locations)
func contractPackages(cs *Contracts) []string {
	set := map[string]bool{}
	for _, fc := range cs.Funcs {
		if fc.Pkg != "trusted" {
			set[fc.Pkg] = true
		}
	}
	var out []string
	for p := range set {
		out = append(out, p)
	}
	sort.Strings(out)
	return out
}

func cmdVerify(args []string) {
	fs := flag.NewFlagSet("verify", flag.ExitOnError)
	fn := fs.String("func", "", "substring of the function key")
	verbose := fs.Bool("v", false, "verbose")
	to := fs.Duration("timeout", 10*time.Second, "per-obligation timeout")
	keep := fs.String("keep", "", "directory to keep SMT files in")
	only := fs.String("only", "", "solve only obligations whose name contains this substring (development aid)")
	fs.Parse(args)
	cs, err := LoadAllContracts(repoDir, trustedDir)
	if err != nil {
		fmt.Fprintln(os.Stderr, "contract error:", err)
		os.Exit(2)
	}
	pkgs := contractPackages(cs)
	prog, err := LoadProgram(repoDir, pkgs)
	if err != nil {
		fmt.Fprintln(os.Stderr, err)
		os.Exit(2)
	}
	dir := *keep
	if dir == "" {
		dir, _ = os.MkdirTemp("", "gvc")
		defer os.RemoveAll(dir)
	} else {
		os.MkdirAll(dir, 0o755)
	}
	var keys []string
	for k, fc := range cs.Funcs {
		if fc.Trusted || fc.Inline {
			continue
		}
		if *fn != "" && !strings.Contains(k, *fn) {
			continue
		}
		keys = append(keys, k)
	}
	sort.Strings(keys)
	bad := 0
	for _, lm := range cs.Lemmas {
		if *fn != "" && !strings.Contains("lemma."+lm.Name, *fn) {
			continue
		}
		r := VerifyLemma(prog, cs, lm)
		if r.Err != nil {
			fmt.Printf("ENGINE-ERROR %s: %v\n", r.Func, r.Err)
			bad++
			continue
		}
		SolveAll([]*Unit{r.Unit}, dir, *to, 6)
		for _, o := range r.Unit.Obls {
			fmt.Printf("%s: [%s] %q (%s %.2fs)\n", r.Func, o.Status, o.Text, o.Solver, o.TimeS)
			if o.Status != "proved" {
				bad++
			}
		}
	}
	for _, k := range keys {
		fc := cs.Funcs[k]
		f, ok := prog.Funcs[k]
		if !ok {
			if strings.Contains(k, ").") && !strings.Contains(k, "(*") {
				continue // interface method contract
			}
			fmt.Printf("ENGINE-ERROR %s: no such function in the repository\n", k)
			bad++
			continue
		}
		t0 := time.Now()
		r := VerifyFunction(prog, cs, f, fc)
		if r.Err != nil {
			fmt.Printf("ENGINE-ERROR %s: %v\n", r.Func, r.Err)
			bad++
			continue
		}
		gen := time.Since(t0)
		if *only != "" {
			var keepO []*Obligation
			for _, o := range r.Unit.Obls {
				if strings.Contains(o.Name, *only) {
					keepO = append(keepO, o)
				}
			}
			r.Unit.Obls = keepO
		}
		SolveAll([]*Unit{r.Unit}, dir, *to, 6)
		np, nf, nu := 0, 0, 0
		for _, o := range r.Unit.Obls {
			switch o.Status {
			case "proved":
				np++
			case "failed", "candidate":
				nf++
			default:
				nu++
			}
		}
		fmt.Printf("%s: %d obligations: %d proved, %d failed, %d undecided (gen %.1fs, total %.1fs)\n", r.Func, len(r.Unit.Obls), np, nf, nu, gen.Seconds(), time.Since(t0).Seconds())
		for _, o := range r.Unit.Obls {
			if o.Status != "proved" || *verbose {
				fmt.Printf("  [%s] %s %s  %q  (%s %.2fs, %d B)\n", o.Status, o.Name, o.Pos, o.Text, o.Solver, o.TimeS, o.SMTBytes)
				if (o.Status == "failed" || o.Status == "candidate") && len(o.Model) > 0 {
					var ks []string
					for k := range o.Model {
						if strings.HasPrefix(k, "in.") || strings.Contains(k, "@0") && !strings.Contains(o.Model[k], "lambda") && !strings.Contains(o.Model[k], "store") && len(o.Model[k]) < 40 {
							ks = append(ks, k)
						}
					}
					sort.Strings(ks)
					for _, k := range ks {
						fmt.Printf("      %s = %s\n", k, o.Model[k])
					}
				}
				if o.Status == "undecided" {
					fmt.Printf("      %s\n", strings.ReplaceAll(strings.TrimSpace(o.Output), "\n", "\n      "))
				}
			}
		}
		if *verbose {
			for _, a := range r.Unit.TrustedList() {
				fmt.Println("  trusted:", a)
			}
		}
		if nf+nu > 0 {
			bad++
		}
	}
	if bad > 0 {
		os.Exit(1)
	}
}

func cmdSelftest(args []string) { fmt.Println("selftest: not implemented yet"); os.Exit(2) }
