package main

import (
	"fmt"
	"go/token"
	"os"
	"runtime/debug"
	"go/types"
	"sort"
	"strings"

	"golang.org/x/tools/go/ssa"
)

type modTarget struct {
	GhostVar string // a ghost scalar (State.Ghost key)
	Comp  string
	So    Sort
	Ref   *Term // nil: every object
	Key   *Term // maps / elems: one key only (nil: all)
	Scalar bool // global scalar (not an array)
	All   bool // everything
}

// fieldTargets lists the components of field fi of struct type owner at object ref (nested structs expanded).
func (x *Exec) fieldTargets(owner types.Type, fi int, ref *Term) []modTarget {
	u := x.u
	f := structOf(owner).Field(fi)
	switch classify(f.Type()) {
	case KStruct:
		var sub *Term
		if ref != nil {
			s := u.Sub(owner, f.Name(), *ref)
			sub = &s
		}
		return x.structTargets(f.Type(), sub)
	case KOpaque:
		return nil
	}
	var out []modTarget
	for _, sl := range u.Layout(f.Type()) {
		out = append(out, modTarget{Comp: fieldComp(owner, f.Name(), sl.Suffix), So: ArrSort(SInt, sl.So), Ref: ref})
	}
	return out
}

func (x *Exec) structTargets(t types.Type, ref *Term) []modTarget {
	var out []modTarget
	st := structOf(t)
	for i := 0; i < st.NumFields(); i++ {
		out = append(out, x.fieldTargets(t, i, ref)...)
	}
	return out
}

func (x *Exec) elemTargets(et types.Type, ref *Term) []modTarget {
	var out []modTarget
	for _, sl := range x.u.Layout(et) {
		out = append(out, modTarget{Comp: elemComp(et, sl.Suffix), So: ArrSort(SInt, ArrSort(x.u.IntSort(), sl.So)), Ref: ref})
	}
	return out
}

func (x *Exec) mapTargets(mt *types.Map, ref *Term) []modTarget {
	u := x.u
	ks := u.keySort(mt.Key())
	out := []modTarget{
		{Comp: mapDomComp(mt.Key(), mt.Elem()), So: ArrSort(SInt, ArrSort(ks, SBool)), Ref: ref},
		{Comp: mapCardComp(mt.Key(), mt.Elem()), So: ArrSort(SInt, SInt), Ref: ref},
	}
	for _, sl := range u.Layout(mt.Elem()) {
		out = append(out, modTarget{Comp: mapValComp(mt.Key(), mt.Elem(), sl.Suffix), So: ArrSort(SInt, ArrSort(ks, sl.So)), Ref: ref})
	}
	return out
}

func (x *Exec) cellTargets(t types.Type, ref *Term) []modTarget {
	if classify(t) == KStruct {
		return x.structTargets(t, ref)
	}
	var out []modTarget
	for _, sl := range x.u.Layout(t) {
		out = append(out, modTarget{Comp: cellComp(t, sl.Suffix), So: ArrSort(SInt, sl.So), Ref: ref})
	}
	return out
}

// modTargets resolves one textual modifies item.
func (x *Exec) modTargets(env *Env, item string) ([]modTarget, error) {
	item = strings.TrimSpace(item)
	if item == "heap" || item == "everything" {
		return []modTarget{{All: true}}, nil
	}
	if strings.HasPrefix(item, "$") {
		gv, ok := x.cs.GhostVars[item[1:]]
		if !ok {
			return nil, fmt.Errorf("unknown ghost var %s", item)
		}
		ty, err := x.prog.LookupType(gv.Type, env.pkg)
		if err != nil {
			return nil, err
		}
		var out []modTarget
		for _, sl := range x.u.Layout(ty) {
			out = append(out, modTarget{GhostVar: "var." + gv.Name + sl.Suffix, So: sl.So})
		}
		return out, nil
	}
	if strings.HasPrefix(item, "elems(") && strings.HasSuffix(item, ")") {
		e, err := ParseExpr(item[6 : len(item)-1])
		if err != nil {
			return nil, err
		}
		v, err := env.Eval(e)
		if err != nil {
			return nil, err
		}
		sl, ok := v.T.Underlying().(*types.Slice)
		if !ok {
			return nil, fmt.Errorf("elems(%s): not a slice", e)
		}
		r := v.S[0]
		return x.elemTargets(sl.Elem(), &r), nil
	}
	if strings.HasPrefix(item, "map(") && strings.HasSuffix(item, ")") {
		e, err := ParseExpr(item[4 : len(item)-1])
		if err != nil {
			return nil, err
		}
		v, err := env.Eval(e)
		if err != nil {
			return nil, err
		}
		mt, ok := v.T.Underlying().(*types.Map)
		if !ok {
			return nil, fmt.Errorf("map(%s): not a map", e)
		}
		r := v.One()
		return x.mapTargets(mt, &r), nil
	}
	if strings.HasPrefix(item, "all(") && strings.HasSuffix(item, ")") {
		// all(T.f) or all(T.*): the field in every object of type T
		inner := item[4 : len(item)-1]
		i := strings.LastIndex(inner, ".")
		if j := strings.Index(inner, ".* - "); j >= 0 {
			i = j
		}
		if i < 0 {
			return nil, fmt.Errorf("all(%s): want all(T.f)", inner)
		}
		ty, err := x.prog.LookupType(inner[:i], env.pkg)
		if err != nil {
			return nil, err
		}
		if inner[i+1:] == "*" {
			return x.structTargets(ty, nil), nil
		}
		if strings.HasPrefix(inner[i+1:], "* - ") {
			// all(T.* - f - g): every field but the named ones
			excl := map[string]bool{}
			for _, n := range strings.Split(inner[i+1:], " - ")[1:] {
				excl[strings.TrimSpace(n)] = true
			}
			st := structOf(ty)
			var out []modTarget
			for fi := 0; fi < st.NumFields(); fi++ {
				if excl[st.Field(fi).Name()] {
					delete(excl, st.Field(fi).Name())
					continue
				}
				out = append(out, x.fieldTargets(ty, fi, nil)...)
			}
			for n := range excl {
				return nil, fmt.Errorf("all(%s): no field %s", inner, n)
			}
			return out, nil
		}
		st := structOf(ty)
		for fi := 0; fi < st.NumFields(); fi++ {
			if st.Field(fi).Name() == inner[i+1:] {
				return x.fieldTargets(ty, fi, nil), nil
			}
		}
		return nil, fmt.Errorf("all(%s): no such field", inner)
	}
	if strings.HasPrefix(item, "allcells(") && strings.HasSuffix(item, ")") {
		ty, err := x.prog.LookupType(item[9:len(item)-1], env.pkg)
		if err != nil {
			return nil, err
		}
		return x.cellTargets(ty, nil), nil
	}
	if strings.HasPrefix(item, "allelems(") && strings.HasSuffix(item, ")") {
		ty, err := x.prog.LookupType(item[9:len(item)-1], env.pkg)
		if err != nil {
			return nil, err
		}
		return x.elemTargets(ty, nil), nil
	}
	if strings.HasPrefix(item, "allmaps(") && strings.HasSuffix(item, ")") {
		// allmaps(K,V)
		parts := strings.Split(item[8:len(item)-1], ",")
		if len(parts) != 2 {
			return nil, fmt.Errorf("allmaps(K,V)")
		}
		kt, err := x.prog.LookupType(strings.TrimSpace(parts[0]), env.pkg)
		if err != nil {
			return nil, err
		}
		vt, err := x.prog.LookupType(strings.TrimSpace(parts[1]), env.pkg)
		if err != nil {
			return nil, err
		}
		return x.mapTargets(types.NewMap(kt, vt), nil), nil
	}
	if item == "chanlog" {
		// the ghost logs of all channels
		return chanLogTargets(), nil
	}
	if strings.HasPrefix(item, "ghostall(") && strings.HasSuffix(item, ")") {
		// ghostall(T.$f): the ghost field f of every object of type T
		inner := item[9 : len(item)-1]
		i := strings.Index(inner, ".$")
		if i < 0 {
			return nil, fmt.Errorf("ghostall(T.$f) expected")
		}
		ty, err := x.prog.LookupType(inner[:i], env.pkg)
		if err != nil {
			return nil, err
		}
		name := inner[i+2:]
		var gf *GhostField
		for k := range x.cs.Ghosts {
			g := &x.cs.Ghosts[k]
			if g.Name == name {
				gt, err := x.prog.LookupType(g.Owner, env.pkg)
				if pk, ok := x.prog.ByPath[g.Pkg]; ok {
					if gt2, err2 := x.prog.LookupType(g.Owner, pk.Types); err2 == nil {
						gt, err = gt2, nil
					}
				}
				if err == nil && types.Identical(types.Unalias(gt), types.Unalias(ty)) {
					gf = g
				}
			}
		}
		if gf == nil {
			return nil, fmt.Errorf("no ghost field $%s on %s", name, inner[:i])
		}
		declPkg := env.pkg
		if pk, ok := x.prog.ByPath[gf.Pkg]; ok {
			declPkg = pk.Types
		}
		if i := strings.Index(gf.Type, "->"); i >= 0 {
			// array-valued ghost field "K -> V"
			kt, err := x.prog.LookupType(strings.TrimSpace(gf.Type[:i]), declPkg)
			if err != nil {
				return nil, err
			}
			vt, err := x.prog.LookupType(strings.TrimSpace(gf.Type[i+2:]), declPkg)
			if err != nil {
				return nil, err
			}
			kl, vl := x.u.Layout(kt), x.u.Layout(vt)
			if len(kl) != 1 || len(vl) != 1 {
				return nil, fmt.Errorf("ghost field $%s: key and value must be scalar", name)
			}
			return []modTarget{{Comp: ghostFieldComp(types.Unalias(ty), name, ""), So: ArrSort(SInt, ArrSort(kl[0].So, vl[0].So))}}, nil
		}
		gt, err := x.prog.LookupType(gf.Type, declPkg)
		if err != nil {
			gt, err = x.prog.LookupType(gf.Type, env.pkg)
		}
		if err != nil {
			return nil, err
		}
		var out []modTarget
		for _, sl := range x.u.Layout(gt) {
			out = append(out, modTarget{Comp: ghostFieldComp(types.Unalias(ty), name, sl.Suffix), So: ArrSort(SInt, sl.So)})
		}
		return out, nil
	}
	if strings.HasPrefix(item, "ghost(") && strings.HasSuffix(item, ")") {
		// ghost(x.$f)
		e, err := ParseExpr(item[6 : len(item)-1])
		if err != nil {
			return nil, err
		}
		sel, ok := e.(ESel)
		if !ok || !strings.HasPrefix(sel.Name, "$") {
			return nil, fmt.Errorf("ghost(x.$f) expected")
		}
		xv, err := env.Eval(sel.X)
		if err != nil {
			return nil, err
		}
		gv, err := env.ghostField(xv, sel.Name[1:])
		if err != nil {
			return nil, err
		}
		owner := types.Unalias(xv.T)
		if p, ok := owner.Underlying().(*types.Pointer); ok {
			owner = p.Elem()
		}
		if classify(owner) == KIface {
			// the declared owner may be an embedded interface
			for k := range x.cs.Ghosts {
				g := &x.cs.Ghosts[k]
				if g.Name == sel.Name[1:] {
					if gt, err := x.prog.LookupType(g.Owner, env.pkg); err == nil && types.IsInterface(gt) && !types.Identical(types.Unalias(gt), owner) && types.AssignableTo(owner, gt) {
						owner = types.Unalias(gt)
						break
					}
				}
			}
		}
		var out []modTarget
		var r Term
		if classify(owner) == KIface && len(xv.S) == 2 {
			r = xv.S[1]
		} else {
			r = xv.One()
		}
		if gv.T == nil && gv.GT != nil {
			// array-valued ghost field: the whole array of this object
			return []modTarget{{Comp: ghostFieldComp(owner, sel.Name[1:], ""), So: ArrSort(SInt, gv.S[0].So), Ref: &r}}, nil
		}
		for i, sl := range x.u.Layout(gv.T) {
			_ = i
			out = append(out, modTarget{Comp: ghostFieldComp(owner, sel.Name[1:], sl.Suffix), So: ArrSort(SInt, sl.So), Ref: &r})
		}
		return out, nil
	}
	if strings.HasPrefix(item, "*") {
		e, err := ParseExpr(item[1:])
		if err != nil {
			return nil, err
		}
		v, err := env.Eval(e)
		if err != nil {
			return nil, err
		}
		pt, ok := v.T.Underlying().(*types.Pointer)
		if !ok || v.P != nil {
			return nil, fmt.Errorf("*%s: not an SMT-level pointer", e)
		}
		r := v.One()
		return x.cellTargets(pt.Elem(), &r), nil
	}
	// x.f  or x.*
	i := strings.LastIndex(item, ".")
	if i < 0 {
		// global variable
		if env.pkg != nil {
			if obj, ok := env.pkg.Scope().Lookup(item).(*types.Var); ok {
				var out []modTarget
				for _, sl := range x.u.Layout(obj.Type()) {
					out = append(out, modTarget{Comp: globalComp(obj.Pkg().Path()+"."+obj.Name(), sl.Suffix), So: sl.So, Scalar: true})
				}
				return out, nil
			}
		}
		return nil, fmt.Errorf("modifies item %q not understood", item)
	}
	e, err := ParseExpr(item[:i])
	if err != nil {
		return nil, err
	}
	v, err := env.Eval(e)
	if err != nil {
		return nil, err
	}
	pt, ok := types.Unalias(v.T).Underlying().(*types.Pointer)
	if !ok || v.P != nil {
		return nil, fmt.Errorf("modifies %s: %s is not a reference to a heap struct", item, e)
	}
	r := v.One()
	if item[i+1:] == "*" {
		return x.structTargets(pt.Elem(), &r), nil
	}
	st := structOf(pt.Elem())
	for fi := 0; fi < st.NumFields(); fi++ {
		if st.Field(fi).Name() == item[i+1:] {
			return x.fieldTargets(pt.Elem(), fi, &r), nil
		}
	}
	return nil, fmt.Errorf("modifies %s: no field %s", item, item[i+1:])
}

func (x *Exec) havocItem(env *Env, st *State, item string) error {
	ts, err := x.modTargets(env, item)
	if err != nil {
		return err
	}
	x.havocTargets(st, ts)
	return nil
}

func (x *Exec) havocTargets(st *State, ts []modTarget) {
	u := x.u
	for _, t := range ts {
		switch {
		case t.GhostVar != "":
			st.Ghost[t.GhostVar] = u.Fresh("ghost$"+t.GhostVar+".havoc", t.So)
		case t.All:
			if x.curCallFrame != nil {
				x.havocAllAtCall(x.curCallFrame, st, x.curCallArgs)
			} else {
				x.havocAll(st)
			}
		case t.Scalar:
			st.Heap[t.Comp] = u.Fresh(t.Comp+".havoc", t.So)
		case t.Ref == nil:
			st.Heap[t.Comp] = u.Fresh(t.Comp+".havoc", t.So)
		default:
			old := u.comp(st, t.Comp, t.So)
			fv := u.Fresh(t.Comp+".hv", t.So.ElemSort())
			u.setComp(st, t.Comp, Store(old, *t.Ref, fv))
			// range facts for integer-valued slots
			x.assumeCompRange(t.Comp, fv)
		}
	}
}

// assumeCompRange adds type-range facts for freshly havocked scalar field values (mode int).
func (x *Exec) assumeCompRange(comp string, v Term) {
	if ii, ok := x.compInt[comp]; ok {
		x.u.Assume(x.u.RangeFact(v, ii))
	}
}

func (x *Exec) havocModifies(env *Env, st *State, fc *FuncContract, extra ...string) error {
	// "preserves": materialise the current value of those components so that a full havoc keeps them
	keep := map[string]Term{}
	for _, it := range append(append([]string(nil), fc.Preserves...), extra...) {
		ts, err := x.modTargets(env, it)
		if err != nil {
			return fmt.Errorf("preserves %s: %v", it, err)
		}
		for _, t := range ts {
			if t.All {
				continue
			}
			if t.Ref != nil {
				return fmt.Errorf("preserves %s: only whole components (all(T.f)) can be preserved", it)
			}
			keep[t.Comp] = x.u.comp(st, t.Comp, t.So)
		}
	}
	defer func() {
		for k, v := range keep {
			st.Heap[k] = v
		}
	}()
	var all []modTarget
	for _, it := range fc.Modifies {
		ts, err := x.modTargets(env, it)
		if err != nil {
			return err
		}
		all = append(all, ts...)
	}
	x.havocTargets(st, all)
	return nil
}

// ---------------------------------------------------------------------------
// verifying one function against its contract

type FuncResult struct {
	X     *Exec
	Func  string
	Key   string
	Mode  Mode
	Unit  *Unit
	Err   error
	Contract *FuncContract
}

func VerifyFunction(prog *Program, cs *Contracts, fn *ssa.Function, fc *FuncContract) (res *FuncResult) {
	name := fn.String()
	short := strings.ReplaceAll(strings.ReplaceAll(name, repoMod+"/", ""), repoMod, "gmqtt")
	u := NewUnit(short, fc.Mode, prog.Fset)
	res = &FuncResult{Func: short, Key: name, Mode: fc.Mode, Unit: u, Contract: fc}
	x := &Exec{u: u, prog: prog, cs: cs, topFC: fc, topName: short, closures: map[string]*Closure{}, labels: fc.Props,
		calls: map[string]int{}, compInt: map[string]intInfo{}, loopEff: map[string]*loopEffects{}, callSeen: map[string]bool{}, inlineLoopSeen: map[string]bool{}}
	res.X = x
	defer func() {
		if r := recover(); r != nil {
			if ee, ok := r.(*EngineError); ok {
				res.Err = ee
				return
			}
			if os.Getenv("GVC_DEBUG") != "" {
				debug.PrintStack()
			}
			res.Err = engineErr("%s: internal error: %v", short, r)
		}
	}()
	st := &State{PC: True, Vars: map[string]Val{}, Heap: map[string]Term{}, Snap: map[string]*State{}, Ghost: map[string]Term{}}
	st.Alloc = u.Declare("alloc@0", SInt)
	u.Assume(Ge(st.Alloc, IntLit(0)))
	u.epochAlloc[0] = st.Alloc
	for _, ax := range cs.Axioms {
		env := &Env{x: x, st: st, old: st, names: map[string]Val{}}
		if fn.Pkg != nil {
			env.pkg = fn.Pkg.Pkg
		}
		g, err := env.Bool(ax.E)
		if err != nil {
			res.Err = engineErr("axiom %q: %v", ax.Text, err)
			return
		}
		u.Assume(g)
		u.Trust("axiom: " + ax.Text)
	}
	x.siteTags = sourceOrderTags(fn)
	// path counters used by called(Name#k) / spawned()
	for _, tag := range x.siteTags {
		if contractMentions(fc, "called("+tag+")") {
			st.Ghost["calls."+tag] = IntLit(0)
			x.counting = true
		}
	}
	if contractMentions(fc, "spawned()") {
		st.Ghost["go.count"] = IntLit(0)
		x.counting = true
	}
	fr := x.newFrame(fn, nil)
	fr.top = true
	fr.fc = fc
	x.topFrame = fr
	for _, p := range fn.Params {
		v := u.FreshVal("in."+p.Name(), p.Type())
		u.assumeValExisting(st, v)
		fr.regs[p] = v
		fr.paramVals[p.Name()] = v
		x.witnesses = append(x.witnesses, witness{p.Name(), v})
	}
	for _, fv := range fn.FreeVars {
		v := u.FreshVal("free."+fv.Name(), fv.Type())
		u.assumeValExisting(st, v)
		if len(v.S) == 1 {
			// a free variable is the address of a captured variable: never nil
			u.Assume(Neq(v.S[0], IntLit(0)))
		}
		fr.regs[fv] = v
	}
	fr.entry = st.Clone()
	x.entry = fr.entry
	// preconditions
	env := x.envFor(fr, st, fr.entry)
	if err := env.bindLets(fc); err != nil {
		res.Err = engineErr("%s: %v", short, err)
		return
	}
	letVals := env.names
	x.topLets = map[string]Val{}
	for _, l := range fc.Lets {
		x.topLets[l.Name] = env.names[l.Name]
	}
	for _, c := range fc.Requires {
		g, err := env.Bool(c.E)
		if err != nil {
			res.Err = engineErr("%s requires %q: %v", short, c.Text, err)
			return
		}
		u.Assume(g)
	}
	// witnesses: named entry-state values reported with counterexamples (used by replay templates)
	for _, w := range fc.Witness {
		v, err := env.Eval(w.E)
		if err != nil {
			res.Err = engineErr("%s witness %s: %v", short, w.Name, err)
			return
		}
		if len(v.S) != 1 {
			res.Err = engineErr("%s witness %s: not scalar", short, w.Name)
			return
		}
		c := u.Declare("wit$"+w.Name, v.S[0].So)
		u.Assume(Eq(c, v.S[0]))
	}
	// vacuity probe: the preconditions must be satisfiable
	vo := u.AddObligation(short, "vacuity.requires", fn.Pos(), fc.Props, "preconditions are satisfiable", True, False)
	vo.Vacuity = true
	work := st.Clone()
	// ghost assignments the function defines (executed on entry; right sides in the pre-state)
	for _, gs := range fc.GhostSets {
		wenv := x.envFor(fr, work, fr.entry)
		for k, v := range letVals {
			wenv.names[k] = v
		}
		renv := x.envFor(fr, fr.entry, fr.entry)
		for k, v := range letVals {
			renv.names[k] = v
		}
		rv, err := renv.Eval(gs.RHS)
		if err != nil {
			res.Err = engineErr("%s ghost set %q: %v", short, gs.Text, err)
			return
		}
		xv, err := wenv.Eval(gs.LHS.X)
		if err != nil {
			res.Err = engineErr("%s ghost set %q: %v", short, gs.Text, err)
			return
		}
		if err := wenv.setGhostField(xv, gs.LHS.Name[1:], rv); err != nil {
			res.Err = engineErr("%s ghost set %q: %v", short, gs.Text, err)
			return
		}
	}
	if err := x.runBody(fr, work); err != nil {
		res.Err = err
		return
	}
	// postconditions at every return
	rn := resultNames(fn.Signature)
	for ri, r := range fr.rets {
		penv := x.envFor(fr, r.st, fr.entry)
		for k, v := range letVals {
			penv.names[k] = v
		}
		// in postconditions a parameter name denotes its entry value (what the caller passed)
		for k, v := range fr.paramVals {
			penv.names[k] = v
		}
		for i, n := range rn {
			penv.names[n] = r.vals[i]
			penv.names[fmt.Sprintf("result%d", i)] = r.vals[i]
		}
		if len(rn) == 1 {
			penv.names["result"] = r.vals[0]
		}
		for ci, c := range fc.Ensures {
			g, err := penv.Bool(c.E)
			if err != nil {
				if x.staleClause(err) {
					x.staleObligation(fmt.Sprintf("ensures.c%d", ci+1), r.pos, x.lab(c.Labels), c.Text, r.st.PC, err)
					continue
				}
				res.Err = engineErr("%s ensures %q: %v", short, c.Text, err)
				return
			}
			u.AddObligation(short, fmt.Sprintf("ensures.c%d", ci+1), r.pos, x.lab(c.Labels), c.Text, r.st.PC, g)
		}
		// frame
		if err := x.frameObligations(fr, penv, r, ri); err != nil {
			res.Err = err
			return
		}
		// reachability probe of this return
		ro := u.AddObligation(short, "vacuity.return", r.pos, fc.Props, "return point is reachable", r.st.PC, False)
		ro.Vacuity = true
	}
	if len(fr.rets) == 0 {
		u.Trust(short + ": no reachable return (function never returns normally)")
	}
	// every "loop N …" clause must have met its loop
	if len(fc.Loops) > 0 {
		have := map[int]bool{}
		for _, li := range findLoops(fn) {
			have[li.ordinal] = true
		}
		for n, cl := range fc.Loops {
			if !have[n] {
				for ci, c := range cl {
					u.AddObligation(short, fmt.Sprintf("inv-entry.L%d.c%d", n, ci+1), fn.Pos(), x.lab(c.Labels), c.Text+fmt.Sprintf("   [loop %d no longer exists]", n), True, False)
				}
			}
		}
	}
	// every "call X#k assert" must have met its call (otherwise the assertion silently vanished)
	for tag, cl := range fc.CallAssert {
		if !x.callSeen[tag] {
			for ci, c := range cl {
				u.AddObligation(short, fmt.Sprintf("assert@%s.c%d", tag, ci+1), fn.Pos(), x.lab(c.Labels), c.Text+"   [the call "+tag+" no longer exists]", True, False)
			}
		}
	}
	for tag, cl := range fc.CallAssume {
		if !x.callSeen[tag] {
			for ci, c := range cl {
				u.AddObligation(short, fmt.Sprintf("assert@%s.assume%d", tag, ci+1), fn.Pos(), x.lab(nil), c.Text+"   [the call "+tag+" no longer exists]", True, False)
			}
		}
	}
	for tag, its := range fc.CallPreserves {
		if !x.callSeen[tag] {
			u.AddObligation(short, fmt.Sprintf("assert@%s.preserves", tag), fn.Pos(), x.lab(nil), "call-site frame "+strings.Join(its, ", ")+"   [the call "+tag+" no longer exists]", True, False)
		}
	}
	for name, m := range fc.InlineLoops {
		for n, cl := range m {
			if !x.inlineLoopSeen[fmt.Sprintf("%s.%d", name, n)] {
				for ci, c := range cl {
					u.AddObligation(short, fmt.Sprintf("inv-entry.%s.L%d.c%d", name, n, ci+1), fn.Pos(), x.lab(c.Labels), c.Text+fmt.Sprintf("   [loop %d of the inlined function %s no longer exists]", n, name), True, False)
				}
			}
		}
	}
	return
}

// frameObligations: every heap component changed since entry must be covered by the modifies clause.
func (x *Exec) frameObligations(fr *Frame, penv *Env, r ret, ri int) error {
	u := x.u
	fc := fr.fc
	if x.waived("frame") {
		u.Trust(x.topName + ": frame obligations waived")
		return nil
	}
	targets, all, err := x.topTargets()
	if err != nil {
		return err
	}
	if all {
		// "modifies heap": callers keep (a) ghost fields and (b) the components listed under "preserves" across the
		// call, so both are checked here; everything else may change.
		penvT := x.envFor(fr, fr.entry, fr.entry)
		// one obligation per return: the conjunction over all preserved components (a contract typically preserves
		// hundreds of components — every field of a few struct types)
		var goals []Term
		var changed []string
		for _, it := range fc.Preserves {
			ts, err := x.modTargets(penvT, it)
			if err != nil {
				return engineErr("%s: preserves %s: %v", x.topName, it, err)
			}
			for _, t := range ts {
				if t.All || t.Ref != nil || t.GhostVar != "" {
					continue
				}
				cur := u.comp(r.st, t.Comp, t.So)
				ent := u.comp(fr.entry, t.Comp, t.So)
				if cur.S == ent.S {
					continue
				}
				changed = append(changed, t.Comp)
				if !t.So.IsArray() {
					goals = append(goals, Eq(cur, ent))
					continue
				}
				sk := u.Fresh("pres.r", SInt)
				goals = append(goals, Implies(Le(App("root", SInt, sk), fr.entry.Alloc), Eq(Select(cur, sk), Select(ent, sk))))
			}
		}
		if len(goals) > 0 {
			txt := "components promised to callers under 'preserves' keep their entry value on every object that existed at entry: " + strings.Join(changed, " ")
			if len(txt) > 600 {
				txt = txt[:600] + " …"
			}
			x.u.AddObligation(x.topName, "preserve", r.pos, x.labels, txt, r.st.PC, And(goals...))
		}
	}
	_ = fc
	if !all && r.st.Epoch != fr.entry.Epoch {
		// a full havoc happened (opaque call): nothing can be said about the frame
		x.u.AddObligation(x.topName, "frame.heap", r.pos, x.labels, "whole heap was havocked by an opaque call; frame cannot be established", r.st.PC, False)
		return nil
	}
	var names []string
	for k := range r.st.Heap {
		names = append(names, k)
	}
	sort.Strings(names)
	for _, name := range names {
		if all && !strings.HasPrefix(name, "GF$") {
			continue
		}
		cur := r.st.Heap[name]
		so := cur.So
		ent := u.comp(fr.entry, name, so)
		if cur.S == ent.S {
			continue
		}
		var mine []modTarget
		whole := false
		for _, t := range targets {
			if t.Comp == name {
				if t.Ref == nil {
					whole = true
				}
				mine = append(mine, t)
			}
		}
		if whole {
			continue
		}
		if !so.IsArray() || strings.HasPrefix(name, "G$") {
			// scalar global
			x.u.AddObligation(x.topName, "frame."+name, r.pos, x.labels, fmt.Sprintf("%s unchanged (not in modifies)", name), r.st.PC, Eq(cur, ent))
			continue
		}
		sk := u.Fresh("frame.r", SInt)
		var notTarget []Term
		for _, t := range mine {
			notTarget = append(notTarget, Neq(sk, *t.Ref))
		}
		pre := And(append(notTarget, Le(App("root", SInt, sk), fr.entry.Alloc))...)
		goal := Implies(pre, Eq(Select(cur, sk), Select(ent, sk)))
		x.u.AddObligation(x.topName, "frame."+name, r.pos, x.labels, fmt.Sprintf("%s changes only where modifies allows", name), r.st.PC, goal)
	}
	return nil
}

// VerifyLemma proves a closed formula of the contract language (spec functions, quantifiers) on its own.
func VerifyLemma(prog *Program, cs *Contracts, lm *Lemma) (res *FuncResult) {
	name := "lemma." + lm.Name
	u := NewUnit(name, lm.Mode, prog.Fset)
	fc := &FuncContract{Key: name, Pkg: lm.Pkg, Mode: lm.Mode, File: lm.Clause.File, Props: lm.Clause.Labels,
		Loops: map[int][]*Clause{}, Waive: map[string]bool{}, CallInv: map[string][]*Clause{}, CallAssert: map[string][]*Clause{}, CallWitness: map[string][]LetDef{}}
	res = &FuncResult{Func: name, Key: name, Mode: lm.Mode, Unit: u, Contract: fc}
	x := &Exec{u: u, prog: prog, cs: cs, topFC: fc, topName: name, closures: map[string]*Closure{}, labels: lm.Clause.Labels,
		calls: map[string]int{}, compInt: map[string]intInfo{}, loopEff: map[string]*loopEffects{}, callSeen: map[string]bool{}, inlineLoopSeen: map[string]bool{}}
	res.X = x
	defer func() {
		if r := recover(); r != nil {
			if ee, ok := r.(*EngineError); ok {
				res.Err = ee
				return
			}
			res.Err = engineErr("%s: internal error: %v", name, r)
		}
	}()
	st := &State{PC: True, Vars: map[string]Val{}, Heap: map[string]Term{}, Snap: map[string]*State{}, Ghost: map[string]Term{}}
	st.Alloc = u.Declare("alloc@0", SInt)
	u.epochAlloc[0] = st.Alloc
	env := &Env{x: x, st: st, old: st, names: map[string]Val{}}
	if pk, ok := prog.ByPath[lm.Pkg]; ok {
		env.pkg = pk.Types
	}
	g, err := env.Bool(lm.Clause.E)
	if err != nil {
		res.Err = engineErr("lemma %s: %v", lm.Name, err)
		return
	}
	u.AddObligation(name, "lemma", 0, lm.Clause.Labels, lm.Clause.Text, True, g)
	return
}

// sourceOrderTags numbers the call sites of fn by callee ("Recv.Name#k") in source order, so that the tags used by
// "call X#k assert" do not depend on the order in which the engine happens to visit the blocks.
func sourceOrderTags(fn *ssa.Function) map[ssa.Instruction]string {
	type site struct {
		ins  ssa.Instruction
		what string
		pos  token.Pos
		seq  int
	}
	var sites []site
	n := 0
	for _, b := range fn.Blocks {
		for _, ins := range b.Instrs {
			ci, ok := ins.(ssa.CallInstruction)
			if !ok {
				continue
			}
			c := ci.Common()
			what := ""
			switch {
			case c.IsInvoke():
				what = recvTypeName(c.Value.Type()) + c.Method.Name()
			case c.StaticCallee() != nil && c.StaticCallee().Parent() == nil:
				callee := c.StaticCallee()
				what = callee.Name()
				if r := callee.Signature.Recv(); r != nil {
					what = recvTypeName(r.Type()) + what
				}
			default:
				// dynamic call through a field or a named function type
				if ld, ok := c.Value.(*ssa.UnOp); ok {
					if fa, ok := ld.X.(*ssa.FieldAddr); ok {
						owner := fa.X.Type().Underlying().(*types.Pointer).Elem()
						if nn, ok := types.Unalias(owner).(*types.Named); ok {
							what = nn.Obj().Name() + "." + structOf(owner).Field(fa.Field).Name()
						}
					}
				}
				if what == "" {
					if nn, ok := types.Unalias(c.Value.Type()).(*types.Named); ok {
						what = nn.Obj().Name()
					}
				}
			}
			if what == "" {
				continue
			}
			n++
			sites = append(sites, site{ins, what, ins.Pos(), n})
		}
	}
	sort.SliceStable(sites, func(i, j int) bool {
		if sites[i].pos != sites[j].pos {
			return sites[i].pos < sites[j].pos
		}
		return sites[i].seq < sites[j].seq
	})
	cnt := map[string]int{}
	out := map[ssa.Instruction]string{}
	for _, s := range sites {
		cnt[s.what]++
		out[s.ins] = fmt.Sprintf("%s#%d", s.what, cnt[s.what])
	}
	return out
}

// chanLogTargets: the components of the ghost log of all channels.
func chanLogTargets() []modTarget {
	return []modTarget{{Comp: "GF$chan$sent", So: ArrSort(SInt, SInt)}, {Comp: "GF$chan$last%tag", So: ArrSort(SInt, SInt)}, {Comp: "GF$chan$last%val", So: ArrSort(SInt, SInt)},
		{Comp: "GF$chan$last1%Int", So: ArrSort(SInt, SInt)}, {Comp: "GF$chan$last1%Bool", So: ArrSort(SInt, SBool)}}
}

// contractMentions: does any clause of the contract contain the text?
func contractMentions(fc *FuncContract, text string) bool {
	has := func(cs []*Clause) bool {
		for _, c := range cs {
			if strings.Contains(c.Text, text) {
				return true
			}
		}
		return false
	}
	if has(fc.Requires) || has(fc.Ensures) {
		return true
	}
	for _, l := range fc.Loops {
		if has(l) {
			return true
		}
	}
	for _, l := range fc.CallAssert {
		if has(l) {
			return true
		}
	}
	for _, l := range fc.CallInv {
		if has(l) {
			return true
		}
	}
	return false
}
