package main

import (
	"fmt"
	"go/token"
	"go/types"
	"math/big"
	"strings"

	"golang.org/x/tools/go/ssa"
)

func bigInt(n int64) *big.Int { return big.NewInt(n) }

// ---------------------------------------------------------------------------
// builtins

func (x *Exec) builtin(fr *Frame, st *State, b *ssa.Builtin, c *ssa.CallCommon, args []Val, rt types.Type, pos token.Pos) (Val, error) {
	u := x.u
	switch b.Name() {
	case "len":
		a := args[0]
		switch classify(a.T) {
		case KSlice:
			return scalar(rt, a.S[2]), nil
		case KString:
			return scalar(rt, u.Define("slen", x.strLen(a.One()))), nil
		case KMap:
			mt := a.T.Underlying().(*types.Map)
			x.assumeMapFacts(st, mt, a.One())
			c := x.mapCard(st, mt, a.One())
			if u.Mode == ModeBV {
				return Val{}, engineErr("len(map) in bv mode")
			}
			return scalar(rt, u.Define("mlen", c)), nil
		case KChan:
			r := u.Fresh("chanlen", u.IntSort())
			u.Assume(u.ILe(u.IntC(0), r))
			return scalar(rt, r), nil
		case KArray:
			return scalar(rt, u.IntC(a.T.Underlying().(*types.Array).Len())), nil
		case KPtrCell:
			if pt, ok := a.T.Underlying().(*types.Pointer); ok {
				if at, ok := pt.Elem().Underlying().(*types.Array); ok {
					return scalar(rt, u.IntC(at.Len())), nil
				}
			}
		}
		return Val{}, engineErr("len of %s", a.T)
	case "cap":
		a := args[0]
		switch classify(a.T) {
		case KSlice:
			return scalar(rt, a.S[3]), nil
		case KChan:
			r := u.Fresh("chancap", u.IntSort())
			u.Assume(u.ILe(u.IntC(0), r))
			return scalar(rt, r), nil
		}
		return Val{}, engineErr("cap of %s", a.T)
	case "append":
		return x.appendBuiltin(st, args[0], args[1], rt)
	case "copy":
		return x.copyBuiltin(st, args[0], args[1], rt)
	case "delete":
		mt := args[0].T.Underlying().(*types.Map)
		x.mapDelete(st, mt, args[0].One(), args[1])
		return Val{T: rt}, nil
	case "panic":
		x.oblig("panic", pos, "explicit panic unreachable", st.PC, False)
		st.PC = False
		return Val{T: rt}, nil
	case "print", "println":
		return Val{T: rt}, nil
	case "ssa:deferstack":
		return scalar(rt, IntLit(0)), nil
	case "close":
		u.Trust("close(chan): no effect on the sequential state")
		return Val{T: rt}, nil
	case "recover":
		u.Trust("recover(): returns nil (verified code never panics)")
		return u.ZeroVal(rt), nil
	case "min", "max":
		ii, ok := intInfoOf(args[0].T)
		if !ok {
			return Val{}, engineErr("min/max on %s", args[0].T)
		}
		r := args[0].One()
		for _, a := range args[1:] {
			var c Term
			if b.Name() == "min" {
				c = u.Cmp(token.LSS, a.One(), r, ii)
			} else {
				c = u.Cmp(token.GTR, a.One(), r, ii)
			}
			r = Ite(c, a.One(), r)
		}
		return scalar(rt, u.Define(b.Name(), r)), nil
	}
	return Val{}, engineErr("builtin %s unsupported", b.Name())
}

func (u *Unit) qIndexSort() (string, Sort) { return "qj", u.IntSort() }

// elemArr returns the element array (per slot) of backing ref.
func (x *Exec) elemArr(st *State, et types.Type, sl Slot, ref Term) Term {
	u := x.u
	return Select(u.comp(st, elemComp(et, sl.Suffix), ArrSort(SInt, ArrSort(u.IntSort(), sl.So))), ref)
}

func (x *Exec) appendBuiltin(st *State, s, t Val, rt types.Type) (Val, error) {
	u := x.u
	et := rt.Underlying().(*types.Slice).Elem()
	isStr := classify(t.T) == KString
	var tlen, toff, tptr Term
	if isStr {
		tlen, toff = x.strLen(t.One()), u.IntC(0)
	} else {
		tptr, toff, tlen = t.S[0], t.S[1], t.S[2]
	}
	n := u.Define("applen", u.IAdd(s.S[2], tlen))
	fits := u.Define("appfits", And(u.ILe(n, s.S[3]), Neq(s.S[0], IntLit(0))))
	// append(nil-or-any, empty...) returns s unchanged when nothing is appended and it fits (or s is nil and t empty)
	empty := Eq(tlen, u.IntC(0))
	fresh := u.NewRef(st, "append")
	rptr := u.Define("appptr", Ite(Or(fits, empty), s.S[0], fresh))
	roff := u.Define("appoff", Ite(Or(fits, empty), s.S[1], u.IntC(0)))
	ncap := u.Fresh("appcap", u.IntSort())
	u.Assume(u.ILe(n, ncap))
	if u.Mode == ModeInt {
		u.Assume(Le(ncap, BigLit(pow2(61))))
	} else {
		u.Assume(App("bvule", SBool, ncap, BVLit(pow2(40), 64)))
	}
	rcap := u.Define("appcap", Ite(Or(fits, empty), s.S[3], ncap))
	for _, sl := range u.Layout(et) {
		name := elemComp(et, sl.Suffix)
		so := ArrSort(SInt, ArrSort(u.IntSort(), sl.So))
		all := u.comp(st, name, so)
		as := Select(all, s.S[0])
		var at func(idx Term) Term
		if isStr {
			at = func(idx Term) Term { return x.strByte(t.One(), idx) }
		} else {
			atArr := Select(all, tptr)
			at = func(idx Term) Term { return Select(atArr, idx) }
		}
		var R Term
		if k, ok := constOf(tlen); ok && k.IsInt64() && k.Int64() <= 4 {
			// in-place case is a few stores; the reallocation case needs the copy of s
			inplace := as
			for i := int64(0); i < k.Int64(); i++ {
				inplace = Store(inplace, u.IAdd(u.IAdd(s.S[1], s.S[2]), u.IntC(i)), at(u.IAdd(toff, u.IntC(i))))
			}
			cp := u.Fresh("appcopy", ArrSort(u.IntSort(), sl.So))
			qn, qs := u.qIndexSort()
			j := Term{qn, qs}
			body := Implies(And(u.ILe(u.IntC(0), j), u.ILt(j, s.S[2])), Eq(Select(cp, j), Select(as, u.IAdd(s.S[1], j))))
			u.Assume(Term{fmt.Sprintf("(forall ((%s %s)) (! %s :pattern ((select %s %s))))", qn, qs, body.S, cp.S, qn), SBool})
			moved := cp
			for i := int64(0); i < k.Int64(); i++ {
				moved = Store(moved, u.IAdd(s.S[2], u.IntC(i)), at(u.IAdd(toff, u.IntC(i))))
			}
			R = Ite(fits, inplace, moved)
		} else {
			R = u.Fresh("apparr", ArrSort(u.IntSort(), sl.So))
			qn, qs := u.qIndexSort()
			j := Term{qn, qs}
			inS := And(u.ILe(roff, j), u.ILt(j, u.IAdd(roff, s.S[2])))
			inT := And(u.ILe(u.IAdd(roff, s.S[2]), j), u.ILt(j, u.IAdd(roff, n)))
			body := And(
				Implies(inS, Eq(Select(R, j), Select(as, u.IAdd(u.ISub(j, roff), s.S[1])))),
				Implies(inT, Eq(Select(R, j), at(u.IAdd(u.ISub(u.ISub(j, roff), s.S[2]), toff)))),
				Implies(And(fits, Not(inS), Not(inT)), Eq(Select(R, j), Select(as, j))))
			u.Assume(Term{fmt.Sprintf("(forall ((%s %s)) (! %s :pattern ((select %s %s))))", qn, qs, body.S, R.S, qn), SBool})
		}
		u.setComp(st, name, Ite(empty, all, Store(all, rptr, R)))
	}
	return Val{T: rt, S: []Term{rptr, roff, n, rcap}}, nil
}

func (x *Exec) copyBuiltin(st *State, dst, src Val, rt types.Type) (Val, error) {
	u := x.u
	et := dst.T.Underlying().(*types.Slice).Elem()
	isStr := classify(src.T) == KString
	var slen, soff Term
	if isStr {
		slen, soff = x.strLen(src.One()), u.IntC(0)
	} else {
		soff, slen = src.S[1], src.S[2]
	}
	n := u.Define("copyn", Ite(u.ILt(dst.S[2], slen), dst.S[2], slen))
	for _, sl := range u.Layout(et) {
		name := elemComp(et, sl.Suffix)
		so := ArrSort(SInt, ArrSort(u.IntSort(), sl.So))
		all := u.comp(st, name, so)
		ad := Select(all, dst.S[0])
		var at func(idx Term) Term
		if isStr {
			at = func(idx Term) Term { return x.strByte(src.One(), idx) }
		} else {
			asrc := Select(all, src.S[0])
			at = func(idx Term) Term { return Select(asrc, idx) }
		}
		R := u.Fresh("copyarr", ArrSort(u.IntSort(), sl.So))
		qn, qs := u.qIndexSort()
		j := Term{qn, qs}
		in := And(u.ILe(dst.S[1], j), u.ILt(j, u.IAdd(dst.S[1], n)))
		body := Ite(in, Eq(Select(R, j), at(u.IAdd(u.ISub(j, dst.S[1]), soff))), Eq(Select(R, j), Select(ad, j)))
		u.Assume(Term{fmt.Sprintf("(forall ((%s %s)) (! %s :pattern ((select %s %s))))", qn, qs, body.S, R.S, qn), SBool})
		// copying zero bytes (or into a nil slice) changes nothing
		u.setComp(st, name, Ite(Eq(n, u.IntC(0)), all, Store(all, dst.S[0], R)))
	}
	return scalar(rt, n), nil
}

// ---------------------------------------------------------------------------
// natively modelled functions (trusted base)

func fieldTrail(v ssa.Value) []string {
	var out []string
	for {
		switch t := v.(type) {
		case *ssa.FieldAddr:
			st := t.X.Type().Underlying().(*types.Pointer).Elem()
			out = append([]string{structOf(st).Field(t.Field).Name()}, out...)
			v = t.X
		case *ssa.UnOp:
			v = t.X
		case *ssa.Field:
			out = append([]string{structOf(t.X.Type()).Field(t.Field).Name()}, out...)
			v = t.X
		case *ssa.MakeInterface:
			v = t.X
		case *ssa.ChangeInterface:
			v = t.X
		default:
			return out
		}
	}
}

func (x *Exec) findMonitor(trail []string) *Monitor {
	if x.topFC == nil {
		return nil
	}
	var ms []*Monitor
	ms = append(ms, x.topFC.Monitors...)
	if len(ms) == 0 {
		return nil
	}
	for _, m := range ms {
		parts := strings.Split(m.Lock, ".")
		if len(trail) > 0 && parts[len(parts)-1] == trail[len(trail)-1] {
			return m
		}
	}
	if len(ms) == 1 && len(trail) == 0 {
		return ms[0]
	}
	return nil
}

func (x *Exec) monitorAcquire(fr *Frame, st *State, trail []string, pos token.Pos, what string) error {
	u := x.u
	m := x.findMonitor(trail)
	if m == nil {
		u.Trust(fmt.Sprintf("%s: %s on %s without a declared monitor: no-op (race freedom assumed)", x.topName, what, strings.Join(trail, ".")))
		return nil
	}
	u.Trust(fmt.Sprintf("monitor rule for %s: fields it protects are only accessed under the lock (race freedom assumed)", m.Lock))
	env := x.envFor(x.topFrame, st, x.topFrame.entry)
	// other threads may have allocated meanwhile
	na := u.Fresh("alloc", SInt)
	u.Assume(Ge(na, st.Alloc))
	st.Alloc = na
	u.havocAlloc = na
	defer func() { u.havocAlloc = Term{} }()
	// havoc protected locations
	for _, p := range m.Protects {
		if err := x.havocItem(env, st, p); err != nil {
			return engineErr("monitor %s protects %s: %v", m.Lock, p, err)
		}
	}
	env = x.envFor(x.topFrame, st, x.topFrame.entry)
	for _, c := range m.Inv {
		g, err := env.Bool(c.E)
		if err != nil {
			return engineErr("monitor invariant %q: %v", c.Text, err)
		}
		u.Assume(Implies(st.PC, g))
	}
	st.Snap["lock"] = st.Clone()
	return nil
}

func (x *Exec) monitorRelease(fr *Frame, st *State, trail []string, pos token.Pos, what string) error {
	m := x.findMonitor(trail)
	if m == nil {
		return nil
	}
	env := x.envFor(x.topFrame, st, x.topFrame.entry)
	for ci, c := range m.Inv {
		g, err := env.Bool(c.E)
		if err != nil {
			return engineErr("monitor invariant %q: %v", c.Text, err)
		}
		x.u.AddObligation(x.topName, fmt.Sprintf("monitor-inv@%s.c%d", what, ci+1), pos, x.lab(c.Labels), c.Text, st.PC, g)
	}
	return nil
}

func recvTrail(c *ssa.CallCommon) []string {
	if c.IsInvoke() {
		return fieldTrail(c.Value)
	}
	if len(c.Args) > 0 {
		return fieldTrail(c.Args[0])
	}
	return nil
}

// nativeInvoke handles interface method calls that are modelled natively.
func (x *Exec) nativeInvoke(fr *Frame, st *State, key string, c *ssa.CallCommon, recv Val, args []Val, pos token.Pos) (Val, bool, error) {
	switch key {
	case "(sync.Locker).Lock":
		return Val{T: types.NewTuple()}, true, x.monitorAcquire(fr, st, fieldTrail(c.Value), pos, "Lock")
	case "(sync.Locker).Unlock":
		return Val{T: types.NewTuple()}, true, x.monitorRelease(fr, st, fieldTrail(c.Value), pos, "Unlock")
	case "(error).Error":
		x.u.DeclareFun("errmsg", []Sort{SInt, SInt}, SStr)
		return scalar(types.Typ[types.String], App("errmsg", SStr, recv.S[0], recv.S[1])), true, nil
	}
	return Val{}, false, nil
}

var timeZeroOffset = new(big.Int).Mul(big.NewInt(62135596800), big.NewInt(1000000000))

// native handles statically dispatched functions modelled by the engine.
func (x *Exec) native(fr *Frame, st *State, key string, callee *ssa.Function, args []Val, rt types.Type, pos token.Pos) (Val, bool, error) {
	u := x.u
	unit := Val{T: types.NewTuple()}
	var site *ssa.CallCommon
	_ = site
	switch key {
	case "(*sync.Mutex).Lock", "(*sync.RWMutex).Lock", "(*sync.RWMutex).RLock":
		return unit, true, x.monitorAcquire(fr, st, x.curTrail, pos, "Lock")
	case "(*sync.Mutex).Unlock", "(*sync.RWMutex).Unlock", "(*sync.RWMutex).RUnlock":
		return unit, true, x.monitorRelease(fr, st, x.curTrail, pos, "Unlock")
	case "(*sync.Cond).Wait":
		tr := append(append([]string(nil), x.curTrail...), "L")
		if err := x.monitorRelease(fr, st, tr, pos, "Wait"); err != nil {
			return unit, true, err
		}
		return unit, true, x.monitorAcquire(fr, st, tr, pos, "Wait")
	case "(*sync.Cond).Signal", "(*sync.Cond).Broadcast", "(*sync.WaitGroup).Add", "(*sync.WaitGroup).Done", "(*sync.WaitGroup).Wait":
		u.Trust("sync.Cond.Signal/Broadcast, sync.WaitGroup: no effect on the sequential state")
		return unit, true, nil
	case "sync.NewCond":
		ref := u.NewRef(st, "cond")
		ct := rt.Underlying().(*types.Pointer).Elem()
		cs := structOf(ct)
		for i := 0; i < cs.NumFields(); i++ {
			if cs.Field(i).Name() == "L" {
				u.StoreField(st, True, ref, ct, i, args[0])
			}
		}
		return scalar(rt, ref), true, nil
	case "sync/atomic.AddUint64", "sync/atomic.AddUint32", "sync/atomic.AddInt64", "sync/atomic.AddInt32":
		u.Trust("sync/atomic operations modelled as plain sequential updates (wrap-around addition)")
		p, err := x.ptrOf(args[0])
		if err != nil {
			return Val{}, true, err
		}
		x.oblig("nil", pos, "atomic.Add on nil pointer", st.PC, p.NonNil())
		et := args[0].T.Underlying().(*types.Pointer).Elem()
		ii, _ := intInfoOf(et)
		old := u.LoadPtr(st, p, et)
		var sum Term
		if u.Mode == ModeBV {
			sum = App("bvadd", old.One().So, old.One(), args[1].One())
		} else {
			sum = u.wrap(App("+", SInt, old.One(), args[1].One()), ii)
		}
		nv := scalar(et, u.Define("atomicadd", sum))
		u.StorePtr(st, p, nv)
		return scalar(rt, nv.One()), true, nil
	case "sync/atomic.LoadUint64", "sync/atomic.LoadUint32", "sync/atomic.LoadInt64", "sync/atomic.LoadInt32":
		u.Trust("sync/atomic operations modelled as plain sequential updates (wrap-around addition)")
		p, err := x.ptrOf(args[0])
		if err != nil {
			return Val{}, true, err
		}
		x.oblig("nil", pos, "atomic.Load on nil pointer", st.PC, p.NonNil())
		et := args[0].T.Underlying().(*types.Pointer).Elem()
		v := u.LoadPtr(st, p, et)
		return x.named(Val{T: rt, S: v.S}, "atomicload"), true, nil
	case "sync/atomic.StoreUint64", "sync/atomic.StoreUint32", "sync/atomic.StoreInt64", "sync/atomic.StoreInt32":
		u.Trust("sync/atomic operations modelled as plain sequential updates (wrap-around addition)")
		p, err := x.ptrOf(args[0])
		if err != nil {
			return Val{}, true, err
		}
		x.oblig("nil", pos, "atomic.Store on nil pointer", st.PC, p.NonNil())
		et := args[0].T.Underlying().(*types.Pointer).Elem()
		u.StorePtr(st, p, Val{T: et, S: args[1].S})
		return unit, true, nil
	case "time.Now":
		u.Trust("time: time.Time is an integer count of nanoseconds; time.Now() is monotone non-decreasing and positive; monotonic-clock readings and year-2262 wrap are not modelled")
		prev := u.ghost(st, "time.now", SInt)
		now := u.Fresh("now", SInt)
		u.Assume(And(Ge(now, prev), Gt(now, BigLit(timeZeroOffset)), Lt(now, BigLit(new(big.Int).Mul(timeZeroOffset, big.NewInt(2))))))
		st.Ghost["time.now"] = now
		return scalar(rt, now), true, nil
	case "(time.Time).Add":
		return scalar(rt, u.Define("tadd", Add(args[0].One(), x.durToInt(args[1])))), true, nil
	case "(time.Time).Sub":
		return scalar(rt, x.intToDur(u.Define("tsub", Sub(args[0].One(), args[1].One())))), true, nil
	case "(time.Time).Before":
		return scalar(rt, Lt(args[0].One(), args[1].One())), true, nil
	case "(time.Time).After":
		return scalar(rt, Gt(args[0].One(), args[1].One())), true, nil
	case "(time.Time).Equal":
		return scalar(rt, Eq(args[0].One(), args[1].One())), true, nil
	case "(time.Time).IsZero":
		return scalar(rt, Eq(args[0].One(), IntLit(0))), true, nil
	case "(time.Time).Unix":
		sec := Sub(App("div", SInt, args[0].One(), IntLit(1000000000)), IntLit(62135596800))
		return scalar(rt, x.fromMathInt(u.Define("unix", sec), intInfo{64, true})), true, nil
	case "time.Unix":
		t := Add(App("*", SInt, Add(x.toMathInt(args[0]), IntLit(62135596800)), IntLit(1000000000)), x.toMathInt(args[1]))
		return scalar(rt, u.Define("tunix", t)), true, nil
	case "time.Since":
		prev := u.ghost(st, "time.now", SInt)
		now := u.Fresh("now", SInt)
		u.Assume(And(Ge(now, prev), Gt(now, BigLit(timeZeroOffset))))
		st.Ghost["time.now"] = now
		return scalar(rt, x.intToDur(Sub(now, args[0].One()))), true, nil
	case "(time.Duration).Seconds":
		u.Trust("time.Duration.Seconds(): exact real division (floating point rounding not modelled)")
		return scalar(rt, App("/", SReal, App("to_real", SReal, x.toMathInt(args[0])), Term{"1000000000.0", SReal})), true, nil
	case "errors.New", "fmt.Errorf", "github.com/pkg/errors.New", "github.com/pkg/errors.Errorf", "github.com/pkg/errors.Wrap":
		r := u.FreshVal("err", rt)
		u.Assume(Eq(r.S[0], u.TypeIDByName("dynamic type of "+key)))
		u.Assume(Neq(r.S[1], IntLit(0)))
		u.Trust("errors.New / fmt.Errorf return a non-nil error of their own (unexported) dynamic type")
		return r, true, nil
	case "fmt.Sprintf", "fmt.Sprint", "strconv.Itoa", "strconv.FormatInt", "strconv.FormatUint":
		return u.FreshVal("str", rt), true, nil
	case "math/rand.Intn":
		r := u.FreshVal("rand", rt)
		ii := intInfo{64, true}
		x.oblig("rand", pos, "rand.Intn argument positive", st.PC, u.Cmp(token.GTR, args[0].One(), u.IntC(0), ii))
		u.Assume(And(u.ILe(u.IntC(0), r.One()), u.ILt(r.One(), args[0].One())))
		u.Trust("math/rand.Intn(n) returns some r with 0 <= r < n")
		return r, true, nil
	}
	if isLogging(callee) {
		x.u.Trust("logging calls (zap, log, fmt.Print*) have no effect on program state")
		return x.u.FreshValOrTuple("log", rt), true, nil
	}
	// external function without a contract: the external frame rule
	if callee.Pkg == nil || !strings.HasPrefix(callee.Pkg.Pkg.Path(), repoMod) {
		if x.cs.Funcs[key] == nil && !isRepoMethod(callee) {
			return x.externalCall(fr, st, key, callee, args, rt, pos)
		}
	}
	return Val{}, false, nil
}

func isRepoMethod(fn *ssa.Function) bool {
	return strings.Contains(fn.String(), repoMod)
}

func (x *Exec) durToInt(v Val) Term { return x.toMathInt(v) }

// toMathInt views an integer value as a mathematical Int (only meaningful in int mode).
func (x *Exec) toMathInt(v Val) Term {
	if x.u.Mode == ModeBV {
		panic(engineErr("%s: time arithmetic is not available in bv mode", x.topName))
	}
	return v.One()
}
func (x *Exec) fromMathInt(t Term, ii intInfo) Term { return t }
func (x *Exec) intToDur(t Term) Term                 { return t }

// externalCall applies the external frame rule: a function outside the repository without a
// contract can only modify memory reachable from its arguments.
func (x *Exec) externalCall(fr *Frame, st *State, key string, callee *ssa.Function, args []Val, rt types.Type, pos token.Pos) (Val, bool, error) {
	u := x.u
	risky := false
	for i, a := range args {
		isRecv := i == 0 && callee.Signature.Recv() != nil
		switch classify(a.T) {
		case KBool, KInt, KString, KFloat, KScalarNamed, KOpaque, KChan:
		case KPtrStruct:
			// pointer to an external struct (e.g. *bytes.Buffer, *websocket.Conn): opaque to us
			pt := a.T.Underlying().(*types.Pointer)
			if n, ok := types.Unalias(pt.Elem()).(*types.Named); ok && n.Obj().Pkg() != nil && !strings.HasPrefix(n.Obj().Pkg().Path(), repoMod) {
				continue
			}
			_ = isRecv
			risky = true
		case KSlice:
			et := a.T.Underlying().(*types.Slice).Elem()
			switch classify(et) {
			case KBool, KInt, KString, KFloat:
				// the callee may overwrite the elements of this backing array
				for _, sl := range u.Layout(et) {
					name := elemComp(et, sl.Suffix)
					so := ArrSort(SInt, ArrSort(u.IntSort(), sl.So))
					all := u.comp(st, name, so)
					ea := u.Fresh("extarr", ArrSort(u.IntSort(), sl.So))
					if sl.Int != nil && u.Mode == ModeInt {
						u.emit(fmt.Sprintf("(assert (forall ((tj Int)) (! (and (<= %s (select %s tj)) (<= (select %s tj) %s)) :pattern ((select %s tj)))))", BigLit(sl.Int.min()).S, ea.S, ea.S, BigLit(sl.Int.max()).S, ea.S))
					}
					u.setComp(st, name, Store(all, a.S[0], ea))
				}
			default:
				risky = true
			}
		case KIface:
			// an interface argument may carry repository objects with methods (callbacks)
			risky = true
		default:
			risky = true
		}
	}
	if risky && x.topFC != nil {
		for _, pat := range x.topFC.Abstract {
			fs := strings.Fields(pat)
			if len(fs) >= 3 && fs[0] == "call" && fs[2] == "pure" && strings.Contains(key, fs[1]) {
				u.Trust(fmt.Sprintf("abstracted call (assumed to leave the modelled state unchanged): %s", key))
				risky = false
				r := u.FreshValOrTuple("abs", rt)
				u.assumeValExisting(st, r)
				return r, true, nil
			}
		}
	}
	if risky {
		u.Trust(fmt.Sprintf("external call with pointer/callback arguments and no contract: whole heap havocked: %s", key))
		x.havocAll(st)
	} else {
		u.Trust(fmt.Sprintf("external frame rule (modifies only memory reachable from its arguments): %s", key))
	}
	r := u.FreshValOrTuple("ext", rt)
	u.assumeValExisting(st, r)
	return r, true, nil
}
