package main

import (
	"fmt"
	"strings"
	"unicode"
)

// Contract expression AST.
type Expr interface{ String() string }

type (
	EIdent  struct{ Name string }
	EInt    struct{ V string }
	EStr    struct{ V string }
	EBool   struct{ V bool }
	ENil    struct{}
	EUnary  struct{ Op string; X Expr }
	EBinary struct{ Op string; X, Y Expr }
	ECond   struct{ C, A, B Expr }
	ESel    struct{ X Expr; Name string }
	EIndex  struct{ X, I Expr }
	ESlice  struct{ X, Lo, Hi Expr }
	ECall   struct{ Fn string; Args []Expr }
	EOld    struct{ X Expr; Label string }
	EQuant  struct {
		Forall bool
		Vars   []Binder
		Body   Expr
	}
	ETypeIs struct{ X Expr; Type string } // x.(type T)  : dynamic type test
	ECast   struct{ X Expr; Type string } // x.(T)      : payload
	EDeref  struct{ X Expr }
)

type Binder struct{ Name, Type string }

func (e EIdent) String() string  { return e.Name }
func (e EInt) String() string    { return e.V }
func (e EStr) String() string    { return fmt.Sprintf("%q", e.V) }
func (e EBool) String() string   { return fmt.Sprint(e.V) }
func (e ENil) String() string    { return "nil" }
func (e EUnary) String() string  { return e.Op + e.X.String() }
func (e EBinary) String() string { return "(" + e.X.String() + " " + e.Op + " " + e.Y.String() + ")" }
func (e ECond) String() string   { return "(" + e.C.String() + " ? " + e.A.String() + " : " + e.B.String() + ")" }
func (e ESel) String() string    { return e.X.String() + "." + e.Name }
func (e EIndex) String() string  { return e.X.String() + "[" + e.I.String() + "]" }
func (e ESlice) String() string  { return e.X.String() + "[:]" }
func (e ECall) String() string {
	var as []string
	for _, a := range e.Args {
		as = append(as, a.String())
	}
	return e.Fn + "(" + strings.Join(as, ", ") + ")"
}
func (e EOld) String() string    { return "old(" + e.X.String() + ")" }
func (e EQuant) String() string  { return "forall.. :: " + e.Body.String() }
func (e ETypeIs) String() string { return e.X.String() + ".(type " + e.Type + ")" }
func (e ECast) String() string   { return e.X.String() + ".(" + e.Type + ")" }
func (e EDeref) String() string  { return "*" + e.X.String() }

type tok struct {
	k string // ident int str op eof
	v string
}

type lexer struct {
	src  string
	pos  int
	toks []tok
}

var ops = []string{"<==>", "==>", "<<", ">>", "&^", "&&", "||", "==", "!=", "<=", ">=", "::", "+", "-", "*", "/", "%", "&", "|", "^", "<", ">", "!", "(", ")", "[", "]", ".", ",", ":", "?", "{", "}", "="}

func lex(src string) ([]tok, error) {
	var out []tok
	i := 0
	for i < len(src) {
		c := src[i]
		switch {
		case c == ' ' || c == '\t' || c == '\n':
			i++
		case unicode.IsLetter(rune(c)) || c == '_' || c == '$':
			j := i + 1
			for j < len(src) && (unicode.IsLetter(rune(src[j])) || unicode.IsDigit(rune(src[j])) || src[j] == '_' || src[j] == '$' || src[j] == '#') {
				j++
			}
			out = append(out, tok{"ident", src[i:j]})
			i = j
		case unicode.IsDigit(rune(c)):
			j := i + 1
			for j < len(src) && (unicode.IsDigit(rune(src[j])) || src[j] == 'x' || (src[j] >= 'a' && src[j] <= 'f') || (src[j] >= 'A' && src[j] <= 'F')) {
				j++
			}
			out = append(out, tok{"int", src[i:j]})
			i = j
		case c == '"':
			j := i + 1
			for j < len(src) && src[j] != '"' {
				if src[j] == '\\' {
					j++
				}
				j++
			}
			if j >= len(src) {
				return nil, fmt.Errorf("unterminated string")
			}
			s := src[i+1 : j]
			s = strings.ReplaceAll(s, `\"`, `"`)
			s = strings.ReplaceAll(s, `\\`, `\`)
			out = append(out, tok{"str", s})
			i = j + 1
		case c == '\'':
			// byte literal 'x'
			if i+2 < len(src) && src[i+2] == '\'' {
				out = append(out, tok{"int", fmt.Sprint(int(src[i+1]))})
				i += 3
			} else {
				return nil, fmt.Errorf("bad char literal at %d", i)
			}
		default:
			matched := false
			for _, op := range ops {
				if strings.HasPrefix(src[i:], op) {
					out = append(out, tok{"op", op})
					i += len(op)
					matched = true
					break
				}
			}
			if !matched {
				return nil, fmt.Errorf("unexpected character %q at %d in %q", c, i, src)
			}
		}
	}
	out = append(out, tok{"eof", ""})
	return out, nil
}

type parser struct {
	toks []tok
	p    int
}

func ParseExpr(src string) (e Expr, err error) {
	toks, err := lex(src)
	if err != nil {
		return nil, err
	}
	p := &parser{toks: toks}
	defer func() {
		if r := recover(); r != nil {
			if pe, ok := r.(parseErr); ok {
				err = fmt.Errorf("%s in %q", string(pe), src)
				return
			}
			panic(r)
		}
	}()
	e = p.expr()
	if p.peek().k != "eof" {
		return nil, fmt.Errorf("trailing tokens at %q in %q", p.peek().v, src)
	}
	return e, nil
}

type parseErr string

func (p *parser) peek() tok { return p.toks[p.p] }
func (p *parser) next() tok { t := p.toks[p.p]; p.p++; return t }
func (p *parser) isOp(v string) bool {
	t := p.peek()
	return t.k == "op" && t.v == v
}
func (p *parser) accept(v string) bool {
	if p.isOp(v) {
		p.p++
		return true
	}
	return false
}
func (p *parser) expect(v string) {
	if !p.accept(v) {
		panic(parseErr(fmt.Sprintf("expected %q, got %q", v, p.peek().v)))
	}
}

func (p *parser) expr() Expr {
	t := p.peek()
	if t.k == "ident" && (t.v == "forall" || t.v == "exists") {
		p.next()
		var bs []Binder
		for {
			var names []string
			names = append(names, p.ident())
			for p.accept(",") {
				names = append(names, p.ident())
			}
			ty := p.typeName()
			for _, n := range names {
				bs = append(bs, Binder{n, ty})
			}
			if p.accept("::") {
				break
			}
			p.expect(",")
		}
		body := p.expr()
		return EQuant{Forall: t.v == "forall", Vars: bs, Body: body}
	}
	c := p.iff()
	if p.accept("?") {
		a := p.expr()
		p.expect(":")
		b := p.expr()
		return ECond{c, a, b}
	}
	return c
}

func (p *parser) ident() string {
	t := p.next()
	if t.k != "ident" {
		panic(parseErr("expected identifier, got " + t.v))
	}
	return t.v
}

// typeName parses: [*|[]]... ident[.ident]
func (p *parser) typeName() string {
	var b strings.Builder
	for {
		if p.accept("*") {
			b.WriteString("*")
			continue
		}
		if p.isOp("[") {
			p.next()
			p.expect("]")
			b.WriteString("[]")
			continue
		}
		break
	}
	if t := p.peek(); t.k == "ident" && t.v == "map" && p.p+1 < len(p.toks) && p.toks[p.p+1].k == "op" && p.toks[p.p+1].v == "[" {
		// map[K]V
		p.next()
		p.next()
		k := p.typeName()
		p.expect("]")
		v := p.typeName()
		b.WriteString("map[" + k + "]" + v)
		return b.String()
	}
	b.WriteString(p.ident())
	for p.isOp(".") || p.isOp("/") {
		b.WriteString(p.next().v)
		b.WriteString(p.ident())
	}
	return b.String()
}

func (p *parser) iff() Expr {
	x := p.impl()
	for p.accept("<==>") {
		y := p.impl()
		x = EBinary{"<==>", x, y}
	}
	return x
}

func (p *parser) impl() Expr {
	x := p.or()
	if p.accept("==>") {
		y := p.impl2()
		return EBinary{"==>", x, y}
	}
	return x
}

// right side of ==> may be a quantifier or another implication
func (p *parser) impl2() Expr {
	t := p.peek()
	if t.k == "ident" && (t.v == "forall" || t.v == "exists") {
		return p.expr()
	}
	return p.impl()
}

func (p *parser) or() Expr {
	x := p.and()
	for p.accept("||") {
		x = EBinary{"||", x, p.and()}
	}
	return x
}
func (p *parser) and() Expr {
	x := p.cmp()
	for p.accept("&&") {
		x = EBinary{"&&", x, p.cmp()}
	}
	return x
}
func (p *parser) cmp() Expr {
	x := p.add()
	for _, op := range []string{"==", "!=", "<=", ">=", "<", ">"} {
		if p.accept(op) {
			y := p.add()
			r := Expr(EBinary{op, x, y})
			// chained comparison a <= b < c
			for _, op2 := range []string{"<=", "<", ">=", ">"} {
				if p.accept(op2) {
					z := p.add()
					r = EBinary{"&&", r, EBinary{op2, y, z}}
					break
				}
			}
			return r
		}
	}
	return x
}
func (p *parser) add() Expr {
	x := p.mul()
	for {
		switch {
		case p.accept("+"):
			x = EBinary{"+", x, p.mul()}
		case p.accept("-"):
			x = EBinary{"-", x, p.mul()}
		case p.accept("|"):
			x = EBinary{"|", x, p.mul()}
		case p.accept("^"):
			x = EBinary{"^", x, p.mul()}
		default:
			return x
		}
	}
}
func (p *parser) mul() Expr {
	x := p.unary()
	for {
		switch {
		case p.accept("*"):
			x = EBinary{"*", x, p.unary()}
		case p.accept("/"):
			x = EBinary{"/", x, p.unary()}
		case p.accept("%"):
			x = EBinary{"%", x, p.unary()}
		case p.accept("<<"):
			x = EBinary{"<<", x, p.unary()}
		case p.accept(">>"):
			x = EBinary{">>", x, p.unary()}
		case p.accept("&^"):
			x = EBinary{"&^", x, p.unary()}
		case p.accept("&"):
			x = EBinary{"&", x, p.unary()}
		default:
			return x
		}
	}
}
func (p *parser) unary() Expr {
	switch {
	case p.accept("!"):
		return EUnary{"!", p.unary()}
	case p.accept("-"):
		return EUnary{"-", p.unary()}
	case p.accept("^"):
		return EUnary{"^", p.unary()}
	case p.accept("*"):
		return EDeref{p.unary()}
	}
	return p.postfix()
}
func (p *parser) postfix() Expr {
	x := p.primary()
	for {
		switch {
		case p.accept("."):
			if p.accept("(") {
				if p.peek().k == "ident" && p.peek().v == "type" {
					p.next()
					ty := p.typeName()
					p.expect(")")
					x = ETypeIs{x, ty}
				} else {
					ty := p.typeName()
					p.expect(")")
					x = ECast{x, ty}
				}
				continue
			}
			x = ESel{x, p.ident()}
		case p.accept("["):
			if p.accept(":") {
				var hi Expr
				if !p.isOp("]") {
					hi = p.expr()
				}
				p.expect("]")
				x = ESlice{x, nil, hi}
				continue
			}
			i := p.expr()
			if p.accept(":") {
				var hi Expr
				if !p.isOp("]") {
					hi = p.expr()
				}
				p.expect("]")
				x = ESlice{x, i, hi}
				continue
			}
			p.expect("]")
			x = EIndex{x, i}
		default:
			return x
		}
	}
}
func (p *parser) primary() Expr {
	t := p.next()
	switch t.k {
	case "int":
		return EInt{t.v}
	case "str":
		return EStr{t.v}
	case "ident":
		switch t.v {
		case "true":
			return EBool{true}
		case "false":
			return EBool{false}
		case "nil":
			return ENil{}
		}
		if p.isOp("(") {
			p.next()
			var args []Expr
			if !p.isOp(")") {
				for {
					args = append(args, p.expr())
					if !p.accept(",") {
						break
					}
				}
			}
			p.expect(")")
			if t.v == "old" && len(args) == 1 {
				return EOld{X: args[0]}
			}
			if t.v == "at" && len(args) == 2 {
				if id, ok := args[0].(EIdent); ok {
					return EOld{X: args[1], Label: id.Name}
				}
				if sel, ok := args[0].(ESel); ok {
					// at(Recv.Name#k, e)
					if id, ok := sel.X.(EIdent); ok {
						return EOld{X: args[1], Label: id.Name + "." + sel.Name}
					}
				}
			}
			return ECall{t.v, args}
		}
		// qualified identifier pkg.Name is parsed as ESel and resolved later
		return EIdent{t.v}
	case "op":
		if t.v == "(" {
			e := p.expr()
			p.expect(")")
			return e
		}
	}
	panic(parseErr("unexpected token " + t.v))
}
