package main

import (
	"fmt"
	"strings"
	"go/types"
	"math/big"
)

// ZeroSlot gives the zero value of a slot.
func (u *Unit) ZeroSlot(s Slot) Term {
	switch {
	case s.So == SBool:
		return False
	case s.So == SStr:
		return u.StrLit("")
	case s.So == SReal:
		return Term{"0.0", SReal}
	case s.Int != nil:
		return u.IntConst(big.NewInt(0), *s.Int)
	case s.So == SInt:
		return IntLit(0)
	}
	panic("ZeroSlot: " + string(s.So))
}

func (u *Unit) ZeroVal(t types.Type) Val {
	ls := u.Layout(t)
	v := Val{T: t, S: make([]Term, len(ls))}
	for i, s := range ls {
		v.S[i] = u.ZeroSlot(s)
	}
	return v
}

// FreshVal creates an unconstrained value of type t (with integer range facts).
func (u *Unit) FreshVal(prefix string, t types.Type) Val {
	ls := u.Layout(t)
	v := Val{T: t, S: make([]Term, len(ls))}
	for i, s := range ls {
		c := u.Fresh(prefix+s.Suffix, s.So)
		v.S[i] = c
		u.assumeSlot(c, s)
	}
	u.assumeWellFormed(v)
	return v
}

func (u *Unit) assumeSlot(c Term, s Slot) {
	if s.Int != nil {
		u.Assume(u.RangeFact(c, *s.Int))
	}
}

// assumeWellFormed adds the structural facts every Go value satisfies
// (slice 0 <= len <= cap, nil slice has len 0, nil interface has val 0).
func (u *Unit) assumeWellFormed(v Val) {
	u.Assume(u.wellFormed(v))
}

func (u *Unit) wellFormed(v Val) Term {
	if v.P != nil || v.F != nil {
		return True
	}
	var facts []Term
	ls := u.Layout(v.T)
	for i := 0; i < len(ls); i++ {
		if len(ls[i].Suffix) >= 4 && ls[i].Suffix[len(ls[i].Suffix)-4:] == "#ptr" {
			ptr, off, ln, cp := v.S[i], v.S[i+1], v.S[i+2], v.S[i+3]
			zero := u.IntC(0)
			facts = append(facts, u.ILe(zero, off), u.ILe(zero, ln), u.ILe(ln, cp),
				Implies(Eq(ptr, IntLit(0)), And(Eq(ln, zero), Eq(cp, zero), Eq(off, zero))),
				Ge(ptr, IntLit(0)))
			if u.Mode == ModeInt {
				facts = append(facts, Le(Add(off, cp), BigLit(pow2(62))))
			} else {
				facts = append(facts, App("bvule", SBool, cp, BVLit(pow2(40), 64)), App("bvule", SBool, off, BVLit(pow2(40), 64)))
			}
		}
		if len(ls[i].Suffix) >= 4 && ls[i].Suffix[len(ls[i].Suffix)-4:] == "#tag" {
			facts = append(facts, Ge(v.S[i], IntLit(0)), Implies(Eq(v.S[i], IntLit(0)), Eq(v.S[i+1], IntLit(0))))
		}
	}
	return And(facts...)
}

// ---------------------------------------------------------------------------
// fields of heap objects

func structOf(t types.Type) *types.Struct {
	return types.Unalias(t).Underlying().(*types.Struct)
}

// LoadField reads field fi of the struct object ref (of struct type owner).
func (u *Unit) LoadField(s *State, ref Term, owner types.Type, fi int) Val {
	f := structOf(owner).Field(fi)
	ft := f.Type()
	if classify(ft) == KStruct {
		return u.LoadStruct(s, u.Sub(owner, f.Name(), ref), ft)
	}
	if classify(ft) == KArray {
		// arrays inside heap structs: flattened as pseudo-fields
		ls := u.Layout(ft)
		v := Val{T: ft, S: make([]Term, len(ls))}
		for i, sl := range ls {
			v.S[i] = Select(u.comp(s, fieldComp(owner, f.Name(), sl.Suffix), ArrSort(SInt, sl.So)), ref)
		}
		return v
	}
	ls := u.Layout(ft)
	v := Val{T: ft, S: make([]Term, len(ls))}
	for i, sl := range ls {
		v.S[i] = Select(u.comp(s, fieldComp(owner, f.Name(), sl.Suffix), ArrSort(SInt, sl.So)), ref)
	}
	return v
}

// escapePtr turns an engine-level pointer into a storable identity. Pointers to heap cells keep their cell
// identity; the address of a struct field or local becomes an opaque non-nil identity (aliasing between that
// stored pointer and the field is then not modelled: listed as an assumption).
func (u *Unit) escapePtr(s *State, v Val) Val {
	var t Term
	first := true
	for i := len(v.P.Alts) - 1; i >= 0; i-- {
		a := v.P.Alts[i]
		var id Term
		switch a.A.Kind {
		case ACell:
			id = a.A.Ref
		case ANil:
			id = IntLit(0)
		default:
			id = u.Fresh("addrof", SInt)
			u.Assume(And(Gt(id, IntLit(0)), Le(App("root", SInt, id), s.Alloc)))
			u.Trust("address of a struct field / local stored into the heap: the stored pointer is an opaque non-nil identity (reads and writes through it are not connected to the field)")
		}
		if first {
			t, first = id, false
		} else {
			t = Ite(a.Guard, id, t)
		}
	}
	return Val{T: v.T, S: []Term{t}}
}

// LoadStruct reads a whole struct value from object ref.
func (u *Unit) LoadStruct(s *State, ref Term, t types.Type) Val {
	st := structOf(t)
	out := Val{T: t}
	for i := 0; i < st.NumFields(); i++ {
		fv := u.LoadField(s, ref, t, i)
		out.S = append(out.S, fv.S...)
	}
	return out
}

func (u *Unit) StoreField(s *State, guard Term, ref Term, owner types.Type, fi int, v Val) {
	f := structOf(owner).Field(fi)
	ft := f.Type()
	if classify(ft) == KStruct {
		u.StoreStruct(s, guard, u.Sub(owner, f.Name(), ref), ft, v)
		return
	}
	ls := u.Layout(ft)
	if v.P != nil {
		v = u.escapePtr(s, v)
	}
	if len(v.S) != len(ls) {
		panic(fmt.Sprintf("StoreField %s.%s: %d slots for %d", owner, f.Name(), len(v.S), len(ls)))
	}
	for i, sl := range ls {
		name := fieldComp(owner, f.Name(), sl.Suffix)
		old := u.comp(s, name, ArrSort(SInt, sl.So))
		nv := Store(old, ref, v.S[i])
		u.setComp(s, name, Ite(guard, nv, old))
	}
}

func (u *Unit) StoreStruct(s *State, guard Term, ref Term, t types.Type, v Val) {
	st := structOf(t)
	off := 0
	for i := 0; i < st.NumFields(); i++ {
		n := len(u.Layout(st.Field(i).Type()))
		u.StoreField(s, guard, ref, t, i, Val{T: st.Field(i).Type(), S: v.S[off : off+n]})
		off += n
	}
}

// ---------------------------------------------------------------------------
// addresses

func (u *Unit) LoadAddr(s *State, a Addr) Val {
	switch a.Kind {
	case ALocal:
		base, ok := s.Vars[a.Var]
		if !ok {
			panic("load of unknown local " + a.Var)
		}
		if len(a.Path) == 0 {
			return base
		}
		lo, hi, t := u.slotRange(base.T, a.Path)
		return Val{T: t, S: base.S[lo:hi]}
	case AField:
		return u.LoadField(s, a.Ref, a.Owner, a.Field)
	case ACell:
		if classify(a.T) == KStruct {
			return u.LoadStruct(s, a.Ref, a.T)
		}
		ls := u.Layout(a.T)
		v := Val{T: a.T, S: make([]Term, len(ls))}
		for i, sl := range ls {
			v.S[i] = Select(u.comp(s, cellComp(a.T, sl.Suffix), ArrSort(SInt, sl.So)), a.Ref)
		}
		return v
	case AElem:
		ls := u.Layout(a.ElemT)
		full := Val{T: a.ElemT, S: make([]Term, len(ls))}
		for i, sl := range ls {
			arr := Select(u.comp(s, elemComp(a.ElemT, sl.Suffix), ArrSort(SInt, ArrSort(u.IntSort(), sl.So))), a.Ref)
			full.S[i] = Select(arr, a.Idx)
		}
		if len(a.Path) == 0 {
			return full
		}
		lo, hi, t := u.slotRange(a.ElemT, a.Path)
		return Val{T: t, S: full.S[lo:hi]}
	case AGlobal:
		ls := u.Layout(a.T)
		v := Val{T: a.T, S: make([]Term, len(ls))}
		if len(a.Path) == 0 && isSentinel(a) {
			// package-level error sentinels: constants (non-nil, pairwise distinct, never reassigned)
			for i, sl := range ls {
				v.S[i] = u.Declare(globalComp(a.Var, sl.Suffix)+"@const", sl.So)
			}
			if _, done := u.sentinels[a.Var]; !done {
				u.Trust("package-level error sentinels (Err*, io.EOF) are non-nil, pairwise distinct and never reassigned")
				u.Assume(Neq(v.S[0], IntLit(0)))
				u.Assume(Gt(v.S[0], IntLit(0)))
				if len(v.S) == 1 {
					// pointer-typed sentinel (e.g. codes.ErrProtocol): an object that exists from the start
					u.Assume(Le(App("root", SInt, v.S[0]), u.epochAlloc[0]))
				}
				for _, o2 := range u.sentinels {
					if len(o2.S) == len(v.S) && len(v.S) == 2 {
						u.Assume(Or(Neq(v.S[0], o2.S[0]), Neq(v.S[1], o2.S[1])))
					} else if len(o2.S) == len(v.S) {
						u.Assume(Neq(v.S[0], o2.S[0]))
					}
				}
				u.sentinels[a.Var] = v
			}
			return v
		}
		for i, sl := range ls {
			name := globalComp(a.Var, sl.Suffix)
			if t, ok := s.Heap[name]; ok {
				v.S[i] = t
			} else {
				v.S[i] = u.Declare(fmt.Sprintf("%s@%d", name, s.Epoch), sl.So)
			}
		}
		return v
	}
	panic("LoadAddr: bad kind")
}

func (u *Unit) StoreAddr(s *State, guard Term, a Addr, v Val) {
	switch a.Kind {
	case ALocal:
		base, ok := s.Vars[a.Var]
		if !ok {
			panic("store to unknown local " + a.Var)
		}
		if v.P != nil || v.F != nil {
			if len(a.Path) != 0 {
				panic("engine-level pointer/closure stored into a struct local")
			}
			if !guard.IsTrue() {
				// guarded engine-level store: merge
				s.Vars[a.Var] = u.mergeVals(a.Var, base.T, []Val{v, base}, []Term{guard, Not(guard)})
				return
			}
			s.Vars[a.Var] = v
			return
		}
		if base.P != nil || base.F != nil {
			if !guard.IsTrue() {
				s.Vars[a.Var] = u.mergeVals(a.Var, base.T, []Val{v, base}, []Term{guard, Not(guard)})
				return
			}
			s.Vars[a.Var] = v
			return
		}
		lo, hi := 0, len(base.S)
		if len(a.Path) > 0 {
			lo, hi, _ = u.slotRange(base.T, a.Path)
		}
		if hi-lo != len(v.S) {
			panic(fmt.Sprintf("StoreAddr local %s: slot mismatch %d vs %d (types %v <- %v)", a.Var, hi-lo, len(v.S), base.T, v.T))
		}
		ns := make([]Term, len(base.S))
		copy(ns, base.S)
		for i := lo; i < hi; i++ {
			ns[i] = Ite(guard, v.S[i-lo], base.S[i])
		}
		s.Vars[a.Var] = Val{T: base.T, S: ns}
	case AField:
		u.StoreField(s, guard, a.Ref, a.Owner, a.Field, v)
	case ACell:
		if classify(a.T) == KStruct {
			u.StoreStruct(s, guard, a.Ref, a.T, v)
			return
		}
		ls := u.Layout(a.T)
		for i, sl := range ls {
			name := cellComp(a.T, sl.Suffix)
			old := u.comp(s, name, ArrSort(SInt, sl.So))
			u.setComp(s, name, Ite(guard, Store(old, a.Ref, v.S[i]), old))
		}
	case AElem:
		ls := u.Layout(a.ElemT)
		lo, hi := 0, len(ls)
		if len(a.Path) > 0 {
			lo, hi, _ = u.slotRange(a.ElemT, a.Path)
		}
		for i := lo; i < hi; i++ {
			sl := ls[i]
			name := elemComp(a.ElemT, sl.Suffix)
			old := u.comp(s, name, ArrSort(SInt, ArrSort(u.IntSort(), sl.So)))
			inner := Select(old, a.Ref)
			u.setComp(s, name, Ite(guard, Store(old, a.Ref, Store(inner, a.Idx, v.S[i-lo])), old))
		}
	case AGlobal:
		ls := u.Layout(a.T)
		for i, sl := range ls {
			name := globalComp(a.Var, sl.Suffix)
			var old Term
			if t, ok := s.Heap[name]; ok {
				old = t
			} else {
				old = u.Declare(fmt.Sprintf("%s@%d", name, s.Epoch), sl.So)
			}
			s.Heap[name] = u.Define(name, Ite(guard, v.S[i], old))
		}
	default:
		panic("StoreAddr: bad kind")
	}
}

func isSentinel(a Addr) bool {
	if k := classify(a.T); k != KIface && k != KPtrStruct {
		return false
	}
	name := a.Var
	if i := strings.LastIndex(name, "."); i >= 0 {
		name = name[i+1:]
	}
	return strings.HasPrefix(name, "Err") || name == "EOF"
}

// LoadPtr reads through a guarded pointer.
func (u *Unit) LoadPtr(s *State, p *PtrVal, t types.Type) Val {
	if len(p.Alts) == 0 {
		panic("load through empty pointer set")
	}
	var vals []Val
	var gs []Term
	for _, a := range p.Alts {
		if a.A.Kind == ANil {
			continue
		}
		vals = append(vals, u.LoadAddr(s, a.A))
		gs = append(gs, a.Guard)
	}
	if len(vals) == 0 {
		return u.ZeroVal(t)
	}
	if len(vals) == 1 {
		return vals[0]
	}
	return u.mergeVals("ld", t, vals, gs)
}

func (u *Unit) StorePtr(s *State, p *PtrVal, v Val) {
	for _, a := range p.Alts {
		if a.A.Kind == ANil {
			continue
		}
		u.StoreAddr(s, a.Guard, a.A, v)
	}
}

// NonNil is the condition under which a guarded pointer is not nil.
func (p *PtrVal) NonNil() Term {
	var gs []Term
	for _, a := range p.Alts {
		switch a.A.Kind {
		case ANil:
		case ACell:
			gs = append(gs, And(a.Guard, Neq(a.A.Ref, IntLit(0))))
		case AField:
			gs = append(gs, And(a.Guard, Neq(a.A.Ref, IntLit(0))))
		default:
			gs = append(gs, a.Guard)
		}
	}
	return Or(gs...)
}

// ---------------------------------------------------------------------------
// allocation

// NewRef allocates a fresh object identity.
func (u *Unit) NewRef(s *State, what string) Term {
	return u.NewRefTyped(s, what, 0)
}

// NewRefTyped: tid is the struct type id of the new object (0: not a struct object — slice backing, map, chan, cell).
func (u *Unit) NewRefTyped(s *State, what string, tid int) Term {
	r := u.Fresh("new."+what, SInt)
	u.Assume(Eq(r, Add(s.Alloc, IntLit(1))))
	u.Assume(Eq(App("root", SInt, r), r))
	u.Assume(Eq(App("kind", SInt, r), IntLit(0)))
	// (on different paths the same identity number can be handed to objects of different types: the type tag is a fact
	// of this path only)
	u.Assume(Implies(s.PC, Eq(App("dyn", SInt, r), IntLit(int64(tid)))))
	s.Alloc = r
	return r
}

// AssumeExisting states that ref (a value that came from the pre-existing world) is not fresh.
func (u *Unit) AssumeExisting(s *State, ref Term) {
	u.Assume(And(Le(App("root", SInt, ref), s.Alloc), Ge(ref, IntLit(0))))
}

// assumeRefsExisting adds existence facts for every reference slot of v.
func (u *Unit) assumeValExisting(s *State, v Val) {
	if v.P != nil || v.F != nil {
		return
	}
	ls := u.Layout(v.T)
	for i, sl := range ls {
		if sl.So == SInt && sl.Int == nil {
			suffix := sl.Suffix
			if len(suffix) >= 4 && suffix[len(suffix)-4:] == "#tag" {
				continue
			}
			u.AssumeExisting(s, v.S[i])
			if tid, ok := dynOfSlot(sl); ok {
				// a non-nil value of static type *T is a T object; slice backings, maps, channels, cells are not struct objects
				// (a fact of the paths on which this state exists: identity numbers are reused across exclusive paths)
				u.Assume(Implies(s.PC, Or(Eq(v.S[i], IntLit(0)), And(Eq(App("dyn", SInt, v.S[i]), IntLit(int64(tid))), Ge(App("root", SInt, v.S[i]), IntLit(1))))))
			}
		}
	}
}
