package main

import (
	"golang.org/x/tools/go/ssa"
	"fmt"
	"go/constant"
	"go/token"
	"go/types"
	"math/big"
	"regexp"
	"strings"
)

// Env evaluates contract expressions in a state.
type Env struct {
	x     *Exec
	st    *State
	old   *State
	names map[string]Val
	fr    *Frame // locals by source name (may be nil)
	pkg   *types.Package
	depth int
	loop  *loopInfo // the loop whose invariant is being evaluated ($k = its hidden range index)
	cur   *State    // inside old()/at(): the state the enclosing clause is evaluated in (locals that the older state lacks keep their current value)
}

func (x *Exec) envFor(fr *Frame, st *State, old *State) *Env {
	e := &Env{x: x, st: st, old: old, names: map[string]Val{}, fr: fr}
	if fr != nil && fr.fn.Pkg != nil {
		e.pkg = fr.fn.Pkg.Pkg
	} else if fr != nil && fr.fn.Parent() != nil {
		p := fr.fn
		for p.Parent() != nil {
			p = p.Parent()
		}
		if p.Pkg != nil {
			e.pkg = p.Pkg.Pkg
		}
	}
	if fr != nil && fr == x.topFrame {
		// "let" names of the contract denote entry-state values everywhere in the function's clauses
		for k, v := range x.topLets {
			e.names[k] = v
		}
	}
	return e
}

func (e *Env) clone() *Env {
	n := *e
	n.names = make(map[string]Val, len(e.names))
	for k, v := range e.names {
		n.names[k] = v
	}
	return &n
}

// bindLets evaluates "let" definitions in the current state.
func (e *Env) bindLets(fc *FuncContract) error {
	for _, l := range fc.Lets {
		v, err := e.Eval(l.E)
		if err != nil {
			return fmt.Errorf("let %s: %v", l.Name, err)
		}
		e.names[l.Name] = v
	}
	return nil
}

// bindLetsOld binds lets to their values in the pre-state environment.
func (e *Env) bindLetsOld(fc *FuncContract, pre *Env) error {
	for _, l := range fc.Lets {
		if v, ok := pre.names[l.Name]; ok {
			e.names[l.Name] = v
		}
	}
	return nil
}

func (e *Env) Bool(ex Expr) (Term, error) {
	v, err := e.Eval(ex)
	if err != nil {
		return Term{}, err
	}
	if len(v.S) != 1 || v.S[0].So != SBool {
		return Term{}, fmt.Errorf("expression %s is not boolean", ex)
	}
	return v.S[0], nil
}

var mathInt types.Type = nil // literals: untyped mathematical integers

func isUntyped(v Val) bool { return v.T == nil }

func (e *Env) u() *Unit { return e.x.u }

// coerce makes a literal take the sort of the other operand (bv mode).
func (e *Env) coerce(a, b Val) (Val, Val, intInfo, error) {
	u := e.u()
	ai, aok := intInfo{}, false
	bi, bok := intInfo{}, false
	if a.T != nil {
		ai, aok = intInfoOf(a.T)
	}
	if b.T != nil {
		bi, bok = intInfoOf(b.T)
	}
	if u.Mode == ModeInt {
		ii := intInfo{64, true}
		if aok {
			ii = ai
		} else if bok {
			ii = bi
		}
		return a, b, ii, nil
	}
	// bv mode
	lit := func(v Val, ii intInfo) (Val, error) {
		if v.Re != nil {
			return scalar(nil, v.Re(ii)), nil
		}
		k, ok := constOf(v.One())
		if !ok {
			return v, fmt.Errorf("bv mode: untyped non-constant operand %s", v.One().S)
		}
		return scalar(nil, BVLit(k, ii.w)), nil
	}
	switch {
	case aok && bok:
		if ai.w != bi.w {
			// widen the narrower (spec convenience)
			if ai.w < bi.w {
				return scalar(b.T, u.Convert(a.One(), ai, bi)), b, bi, nil
			}
			return a, scalar(a.T, u.Convert(b.One(), bi, ai)), ai, nil
		}
		return a, b, ai, nil
	case aok:
		nb, err := lit(b, ai)
		return a, nb, ai, err
	case bok:
		na, err := lit(a, bi)
		return na, b, bi, err
	}
	// both untyped: keep as Int literals (constant folding happens later)
	return a, b, intInfo{64, true}, nil
}

func (e *Env) Eval(ex Expr) (Val, error) {
	u := e.u()
	u.specDepth++
	defer func() { u.specDepth-- }()
	switch t := ex.(type) {
	case EInt:
		n, ok := new(big.Int).SetString(t.V, 0)
		if !ok {
			return Val{}, fmt.Errorf("bad integer %s", t.V)
		}
		v := scalar(nil, BigLit(n))
		v.Re = func(ii intInfo) Term { return u.IntConst(n, ii) }
		return v, nil
	case EBool:
		if t.V {
			return scalar(types.Typ[types.Bool], True), nil
		}
		return scalar(types.Typ[types.Bool], False), nil
	case EStr:
		return scalar(types.Typ[types.String], u.StrLit(t.V)), nil
	case ENil:
		return Val{T: types.Typ[types.UntypedNil], S: []Term{IntLit(0)}}, nil
	case EIdent:
		return e.ident(t.Name)
	case EOld:
		var st *State
		if t.Label == "" {
			st = e.old
		} else {
			st = e.st.Snap[t.Label]
			if st == nil {
				// no such snapshot on this path: fall back to the entry state
				st = e.old
			}
		}
		if st == nil {
			return Val{}, fmt.Errorf("old() used where no pre-state exists")
		}
		n := e.clone()
		n.st = st
		if n.cur == nil {
			n.cur = e.st
		}
		// entry values of parameters
		if e.fr != nil {
			for k, v := range e.fr.paramVals {
				if _, shadow := e.names[k]; !shadow || true {
					n.names[k] = v
				}
			}
		}
		return n.Eval(t.X)
	case EUnary:
		v, err := e.Eval(t.X)
		if err != nil {
			return Val{}, err
		}
		switch t.Op {
		case "!":
			return scalar(types.Typ[types.Bool], Not(v.One())), nil
		case "-":
			if v.T == nil || u.Mode == ModeInt {
				if k, ok := constOf(v.One()); ok {
					return scalar(v.T, BigLit(new(big.Int).Neg(k))), nil
				}
				return scalar(v.T, App("-", SInt, v.One())), nil
			}
			return scalar(v.T, App("bvneg", v.One().So, v.One())), nil
		case "^":
			ii, _ := intInfoOf(v.T)
			r, err := u.BitNot(v.One(), ii)
			return scalar(v.T, r), err
		}
	case EDeref:
		v, err := e.Eval(t.X)
		if err != nil {
			return Val{}, err
		}
		pt, ok := types.Unalias(v.T).Underlying().(*types.Pointer)
		if !ok {
			return Val{}, fmt.Errorf("*%s: not a pointer", t.X)
		}
		if v.P != nil {
			return u.LoadPtr(e.st, v.P, pt.Elem()), nil
		}
		if classify(pt.Elem()) == KStruct {
			return u.LoadStruct(e.st, v.One(), pt.Elem()), nil
		}
		return u.LoadAddr(e.st, Addr{Kind: ACell, T: pt.Elem(), Ref: v.One()}), nil
	case EBinary:
		return e.binary(t)
	case ECond:
		c, err := e.Bool(t.C)
		if err != nil {
			return Val{}, err
		}
		a, err := e.Eval(t.A)
		if err != nil {
			return Val{}, err
		}
		b, err := e.Eval(t.B)
		if err != nil {
			return Val{}, err
		}
		if a.T == nil || b.T == nil {
			var ii intInfo
			a, b, ii, err = e.coerce(a, b)
			_ = ii
			if err != nil {
				return Val{}, err
			}
		}
		if len(a.S) != len(b.S) {
			return Val{}, fmt.Errorf("?: branches differ in shape")
		}
		r := Val{T: a.T, S: make([]Term, len(a.S))}
		if r.T == nil {
			r.T = b.T
		}
		for i := range a.S {
			r.S[i] = Ite(c, a.S[i], b.S[i])
		}
		if a.T == nil && b.T == nil && a.Re != nil && b.Re != nil {
			ar, br := a.Re, b.Re
			r.Re = func(ii intInfo) Term { return Ite(c, ar(ii), br(ii)) }
		}
		return r, nil
	case ESel:
		return e.selector(t)
	case EIndex:
		return e.index(t)
	case ESlice:
		return Val{}, fmt.Errorf("slice expressions are not supported in contracts")
	case ECall:
		return e.callExpr(t)
	case EQuant:
		return e.quant(t)
	case ETypeIs:
		v, err := e.Eval(t.X)
		if err != nil {
			return Val{}, err
		}
		ty, err := e.x.prog.LookupType(t.Type, e.pkg)
		if err != nil {
			return Val{}, err
		}
		return scalar(types.Typ[types.Bool], Eq(v.S[0], u.TypeID(ty))), nil
	case ECast:
		v, err := e.Eval(t.X)
		if err != nil {
			return Val{}, err
		}
		ty, err := e.x.prog.LookupType(t.Type, e.pkg)
		if err != nil {
			return Val{}, err
		}
		if classify(v.T) != KIface {
			// numeric conversion T(x) written as x.(T)
			fi, ok1 := intInfoOf(v.T)
			ti, ok2 := intInfoOf(ty)
			if ok1 && ok2 {
				return scalar(ty, u.Convert(v.One(), fi, ti)), nil
			}
			return Val{}, fmt.Errorf("%s: not an interface", t.X)
		}
		return e.x.unbox(e.st, v, ty)
	}
	return Val{}, fmt.Errorf("cannot evaluate %s (%T)", ex, ex)
}

func (e *Env) ident(name string) (Val, error) {
	if v, ok := e.names[name]; ok {
		return v, nil
	}
	if name == "$k" {
		name = "rangeindex"
	}
	if strings.HasPrefix(name, "$") {
		if gv, ok := e.x.cs.GhostVars[name[1:]]; ok {
			ty, err := e.x.prog.LookupType(gv.Type, e.pkg)
			if err != nil {
				return Val{}, fmt.Errorf("ghost var %s: %v", name, err)
			}
			ls := e.u().Layout(ty)
			v := Val{T: ty, S: make([]Term, len(ls))}
			for i, sl := range ls {
				v.S[i] = e.u().ghost(e.st, "var."+gv.Name+sl.Suffix, sl.So)
			}
			return v, nil
		}
	}
	// local variable of the frame, by source name
	if e.fr != nil {
		base, ord := name, 1
		if i := strings.Index(name, "#"); i >= 0 {
			fmt.Sscanf(name[i+1:], "%d", &ord)
			base = name[:i]
		}
		if keys := e.fr.localKeys[base]; len(keys) >= ord {
			if v, ok := e.st.Vars[keys[ord-1]]; ok {
				return v, nil
			}
			// inside old()/at(): a local the older state does not have yet denotes its current value
			if e.cur != nil {
				if v, ok := e.cur.Vars[keys[ord-1]]; ok {
					return v, nil
				}
			}
			// a local of this function that does not exist on this path (declared in a block the path did not
			// go through): an arbitrary value of its type
			if al := e.fr.allocByKey(keys[ord-1]); al != nil {
				et := al.Type().Underlying().(*types.Pointer).Elem()
				if classify(et) != KStruct && classify(et) != KArray && classify(et) != KOpaque {
					return e.u().FreshVal("dead."+base, et), nil
				}
			}
		}
		// captured variable living in a cell
		if keys := e.fr.localKeys["&"+base]; len(keys) >= ord {
			if pv, ok := e.st.Vars[keys[ord-1]]; ok {
				pt := pv.T.Underlying().(*types.Pointer)
				return e.u().LoadAddr(e.st, Addr{Kind: ACell, T: pt.Elem(), Ref: pv.One()}), nil
			}
			// the cell reference is path-independent: look it up in the entry registers
		}
		if v, ok := e.fr.paramVals[name]; ok {
			return v, nil
		}
		// free variables of a closure
		for i, fv := range e.fr.fn.FreeVars {
			if fv.Name() == name {
				pv := e.fr.regs[fv]
				_ = i
				pt := pv.T.Underlying().(*types.Pointer)
				if pv.P != nil {
					return e.u().LoadPtr(e.st, pv.P, pt.Elem()), nil
				}
				if classify(pt.Elem()) == KStruct {
					return e.u().LoadStruct(e.st, pv.One(), pt.Elem()), nil
				}
				return e.u().LoadAddr(e.st, Addr{Kind: ACell, T: pt.Elem(), Ref: pv.One()}), nil
			}
		}
	}
	if e.fr != nil && e.fr.parent != nil && !e.fr.top {
		// a clause evaluated inside an inlined function may name the locals of the function it is inlined into
		pe := *e
		pe.fr = e.fr.parent
		pe.names = nil
		if v, err := pe.ident(name); err == nil {
			return v, nil
		}
	}
	if e.fr != nil {
		base := name
		if i := strings.Index(name, "#"); i >= 0 {
			base = name[:i]
		}
		// a captured / address-taken local (a heap cell) that does not exist on this path: an arbitrary value
		if _, isStack := e.fr.localKeys[base]; !isStack {
			for _, b := range e.fr.fn.Blocks {
				for _, ins := range b.Instrs {
					if al, ok := ins.(*ssa.Alloc); ok && al.Heap && al.Comment == base {
						et := al.Type().Underlying().(*types.Pointer).Elem()
						if k := classify(et); k != KStruct && k != KArray && k != KOpaque {
							return e.u().FreshVal("dead."+base, et), nil
						}
					}
				}
			}
		}
	}
	// package-level object
	if e.pkg != nil {
		if obj := e.pkg.Scope().Lookup(name); obj != nil {
			return e.object(obj)
		}
	}
	return Val{}, fmt.Errorf("unknown identifier %q", name)
}

func (e *Env) object(obj types.Object) (Val, error) {
	u := e.u()
	switch o := obj.(type) {
	case *types.Const:
		switch classify(o.Type()) {
		case KInt:
			n, ok := constant.Val(constant.ToInt(o.Val())).(*big.Int)
			if !ok {
				i64, _ := constant.Int64Val(constant.ToInt(o.Val()))
				n = big.NewInt(i64)
			}
			if b, isB := o.Type().Underlying().(*types.Basic); isB && b.Info()&types.IsUntyped != 0 {
				return scalar(nil, BigLit(n)), nil
			}
			ii, _ := intInfoOf(o.Type())
			return scalar(o.Type(), u.IntConst(n, ii)), nil
		case KBool:
			if constant.BoolVal(o.Val()) {
				return scalar(o.Type(), True), nil
			}
			return scalar(o.Type(), False), nil
		case KString:
			return scalar(o.Type(), u.StrLit(constant.StringVal(o.Val()))), nil
		}
	case *types.Var:
		a := Addr{Kind: AGlobal, T: o.Type(), Var: o.Pkg().Path() + "." + o.Name()}
		v := u.LoadAddr(e.st, a)
		e.x.globalFacts(o, v)
		return v, nil
	}
	return Val{}, fmt.Errorf("object %s not usable in a contract", obj.Name())
}

func (e *Env) pkgByName(name string) *types.Package {
	if e.pkg != nil && e.pkg.Name() == name {
		return e.pkg
	}
	if pk, ok := e.x.prog.ByPath[name]; ok {
		return pk.Types
	}
	if e.pkg != nil {
		for _, imp := range e.pkg.Imports() {
			if imp.Name() == name {
				return imp
			}
		}
	}
	if full, ok := shortPkgs[name]; ok {
		if pk, ok := e.x.prog.ByPath[full]; ok {
			return pk.Types
		}
	}
	return nil
}

func (e *Env) selector(t ESel) (Val, error) {
	u := e.u()
	// package-qualified name?
	if id, ok := t.X.(EIdent); ok {
		if _, isName := e.names[id.Name]; !isName {
			if _, err := e.ident(id.Name); err != nil {
				if pk := e.pkgByName(id.Name); pk != nil {
					obj := pk.Scope().Lookup(t.Name)
					if obj == nil {
						return Val{}, fmt.Errorf("%s.%s not found", id.Name, t.Name)
					}
					return e.object(obj)
				}
			}
		}
	}
	xv, err := e.Eval(t.X)
	if err != nil {
		return Val{}, err
	}
	if xv.T == nil {
		return Val{}, fmt.Errorf("%s has no fields", t.X)
	}
	// ghost field
	if strings.HasPrefix(t.Name, "$") {
		return e.ghostField(xv, t.Name[1:])
	}
	typ := types.Unalias(xv.T)
	ptr, isPtr := typ.Underlying().(*types.Pointer)
	var stt types.Type
	if isPtr {
		stt = ptr.Elem()
	} else {
		stt = typ
	}
	sto, ok := types.Unalias(stt).Underlying().(*types.Struct)
	if !ok {
		return Val{}, fmt.Errorf("%s (type %s) is not a struct", t.X, xv.T)
	}
	// find field (including promoted through embedded structs, one level at a time)
	fi := -1
	for i := 0; i < sto.NumFields(); i++ {
		if sto.Field(i).Name() == t.Name {
			fi = i
		}
	}
	if fi < 0 {
		// try embedded
		for i := 0; i < sto.NumFields(); i++ {
			f := sto.Field(i)
			if f.Embedded() {
				inner := ESel{ESel{t.X, f.Name()}, t.Name}
				if v, err := e.Eval(inner); err == nil {
					return v, nil
				}
			}
		}
		return Val{}, fmt.Errorf("type %s has no field %s", stt, t.Name)
	}
	f := sto.Field(fi)
	if !isPtr {
		lo, hi, ft := u.slotRange(stt, []int{fi})
		return Val{T: ft, S: xv.S[lo:hi]}, nil
	}
	if xv.P != nil {
		// pointer to a local struct
		var alts []PtrAlt
		for _, a := range xv.P.Alts {
			na := a.A
			na.Path = append(append([]int(nil), na.Path...), fi)
			na.T = f.Type()
			alts = append(alts, PtrAlt{a.Guard, na})
		}
		return u.LoadPtr(e.st, &PtrVal{Alts: alts}, f.Type()), nil
	}
	ref := xv.One()
	switch classify(f.Type()) {
	case KStruct:
		// value of a nested struct: expose as a pointer-like handle so further selection works.
		return Val{T: types.NewPointer(f.Type()), S: []Term{u.Sub(stt, f.Name(), ref)}}, nil
	case KOpaque:
		return Val{T: types.NewPointer(f.Type()), S: []Term{u.Sub(stt, f.Name(), ref)}}, nil
	}
	return u.LoadField(e.st, ref, stt, fi), nil
}

func (e *Env) ghostField(xv Val, name string) (Val, error) {
	u := e.u()
	owner := types.Unalias(xv.T)
	if p, ok := owner.Underlying().(*types.Pointer); ok {
		owner = p.Elem()
	}
	if classify(owner) == KIface && len(xv.S) == 2 {
		// ghost state of an interface value is keyed by the identity of the object it holds
		xv = Val{T: xv.T, S: []Term{xv.S[1]}}
	}
	var gf *GhostField
	for i := range e.x.cs.Ghosts {
		g := &e.x.cs.Ghosts[i]
		if g.Name == name {
			gt, err := e.x.prog.LookupType(g.Owner, e.pkg)
			if pk, ok := e.x.prog.ByPath[g.Pkg]; ok {
				if gt2, err2 := e.x.prog.LookupType(g.Owner, pk.Types); err2 == nil {
					gt, err = gt2, nil
				}
			}
			if err == nil && types.Identical(types.Unalias(gt), owner) {
				gf = g
				break
			}
			if err == nil && types.IsInterface(gt) && classify(owner) == KIface && types.AssignableTo(owner, gt) {
				// ghost field declared on an interface that this interface embeds: keyed by the declared owner
				gf = g
				owner = types.Unalias(gt)
				break
			}
			if err != nil && strings.HasSuffix(typeKey(owner), g.Owner) {
				gf = g
				break
			}
		}
	}
	if gf == nil && classify(owner) != KIface && xv.T != nil {
		// a concrete object seen through the ghost state of an interface it implements (e.g. a *bufio.Reader as the
		// io.ByteReader it is passed as): same object identity, the interface's component
		for i := range e.x.cs.Ghosts {
			g := &e.x.cs.Ghosts[i]
			if g.Name != name {
				continue
			}
			gt, err := e.x.prog.LookupType(g.Owner, e.pkg)
			if pk, ok := e.x.prog.ByPath[g.Pkg]; ok {
				if gt2, err2 := e.x.prog.LookupType(g.Owner, pk.Types); err2 == nil {
					gt, err = gt2, nil
				}
			}
			if err == nil && types.IsInterface(gt) && types.AssignableTo(xv.T, gt) {
				gf = g
				owner = types.Unalias(gt)
				break
			}
		}
	}
	if gf == nil {
		return Val{}, fmt.Errorf("no ghost field $%s on %s", name, owner)
	}
	if i := strings.Index(gf.Type, "->"); i >= 0 {
		// array-valued ghost field "K -> V"
		kt, err := e.x.prog.LookupType(strings.TrimSpace(gf.Type[:i]), e.pkg)
		if err != nil {
			return Val{}, fmt.Errorf("ghost field $%s: %v", name, err)
		}
		vt, err := e.x.prog.LookupType(strings.TrimSpace(gf.Type[i+2:]), e.pkg)
		if err != nil {
			return Val{}, fmt.Errorf("ghost field $%s: %v", name, err)
		}
		kl, vl := u.Layout(kt), u.Layout(vt)
		if len(kl) != 1 || len(vl) != 1 {
			return Val{}, fmt.Errorf("ghost field $%s: key and value must be scalar", name)
		}
		so := ArrSort(kl[0].So, vl[0].So)
		cn := ghostFieldComp(owner, name, "")
		return Val{T: nil, S: []Term{Select(u.comp(e.st, cn, ArrSort(SInt, so)), xv.One())}, GT: vt, GK: kt}, nil
	}
	declPkg := e.pkg
	if pk, ok := e.x.prog.ByPath[gf.Pkg]; ok {
		declPkg = pk.Types
	}
	gt, err := e.x.prog.LookupType(gf.Type, declPkg)
	if err != nil {
		gt, err = e.x.prog.LookupType(gf.Type, e.pkg)
	}
	if err != nil {
		return Val{}, fmt.Errorf("ghost field $%s: %v", name, err)
	}
	ls := u.Layout(gt)
	v := Val{T: gt, S: make([]Term, len(ls))}
	for i, sl := range ls {
		cn := ghostFieldComp(owner, name, sl.Suffix)
		v.S[i] = Select(u.comp(e.st, cn, ArrSort(SInt, sl.So)), xv.One())
	}
	return v, nil
}

func (e *Env) index(t EIndex) (Val, error) {
	u := e.u()
	xv, err := e.Eval(t.X)
	if err != nil {
		return Val{}, err
	}
	iv, err := e.Eval(t.I)
	if err != nil {
		return Val{}, err
	}
	if xv.T == nil && xv.GT != nil {
		k := iv
		if k.T == nil && k.Re != nil {
			if ii, ok := intInfoOf(xv.GK); ok {
				k = scalar(xv.GK, k.Re(ii))
			}
		}
		return scalar(xv.GT, Select(xv.S[0], k.One())), nil
	}
	if xv.T == nil {
		return Val{}, fmt.Errorf("cannot index %s", t.X)
	}
	switch tt := types.Unalias(xv.T).Underlying().(type) {
	case *types.Slice:
		idx := e.asIndex(iv)
		ls := u.Layout(tt.Elem())
		v := Val{T: tt.Elem(), S: make([]Term, len(ls))}
		pos := u.IAdd(xv.S[1], idx)
		shifted := "(- %s " + xv.S[1].S + ")"
		if pre := "(- "; strings.HasPrefix(idx.S, pre) && strings.HasSuffix(idx.S, " "+xv.S[1].S+")") && !strings.Contains(idx.S[3:], "(") {
			// idx is (j - off): the absolute position is j
			pos = Term{idx.S[len(pre) : len(idx.S)-len(xv.S[1].S)-2], idx.So}
		} else if m := shiftRe.FindStringSubmatch(idx.S); m != nil && fmt.Sprintf(shifted, m[2]) == "(- "+m[2]+" "+m[3]+")" && m[3] == xv.S[1].S {
			// idx is ((j - off) +/- k): the absolute position is (j +/- k)
			pos = App(m[1], idx.So, Term{m[2], idx.So}, Term{m[4], idx.So})
		}
		for i, sl := range ls {
			arr := Select(u.comp(e.st, elemComp(tt.Elem(), sl.Suffix), ArrSort(SInt, ArrSort(u.IntSort(), sl.So))), xv.S[0])
			v.S[i] = Select(arr, pos)
		}
		return v, nil
	case *types.Map:
		k := iv
		if k.T == nil && u.Mode == ModeBV {
			ii, _ := intInfoOf(tt.Key())
			kk, _ := constOf(iv.One())
			k = scalar(tt.Key(), BVLit(kk, ii.w))
		}
		v, _ := e.x.mapRead(e.st, tt, xv.One(), k.One())
		return v, nil
	case *types.Basic:
		if tt.Info()&types.IsString != 0 {
			return scalar(types.Typ[types.Uint8], e.x.strByte(xv.One(), e.asIndex(iv))), nil
		}
	}
	return Val{}, fmt.Errorf("cannot index %s of type %s", t.X, xv.T)
}

// asIndex converts an integer value to the index sort.
func (e *Env) asIndex(v Val) Term {
	u := e.u()
	if u.Mode == ModeInt {
		return v.One()
	}
	if v.T == nil {
		k, _ := constOf(v.One())
		if k == nil {
			return v.One()
		}
		return BVLit(k, 64)
	}
	ii, _ := intInfoOf(v.T)
	return u.Convert(v.One(), ii, intInfo{64, true})
}

func (e *Env) binary(t EBinary) (Val, error) {
	u := e.u()
	boolT := types.Typ[types.Bool]
	switch t.Op {
	case "&&", "||", "==>", "<==>":
		a, err := e.Bool(t.X)
		if err != nil {
			return Val{}, err
		}
		b, err := e.Bool(t.Y)
		if err != nil {
			return Val{}, err
		}
		switch t.Op {
		case "&&":
			return scalar(boolT, And(a, b)), nil
		case "||":
			return scalar(boolT, Or(a, b)), nil
		case "==>":
			return scalar(boolT, Implies(a, b)), nil
		default:
			return scalar(boolT, Eq(a, b)), nil
		}
	}
	a, err := e.Eval(t.X)
	if err != nil {
		return Val{}, err
	}
	b, err := e.Eval(t.Y)
	if err != nil {
		return Val{}, err
	}
	if t.Op == "==" || t.Op == "!=" {
		eq, err := e.equal(a, b)
		if err != nil {
			return Val{}, fmt.Errorf("%s: %v", t, err)
		}
		if t.Op == "!=" {
			eq = Not(eq)
		}
		return scalar(boolT, eq), nil
	}
	if len(a.S) != 1 || len(b.S) != 1 {
		return Val{}, fmt.Errorf("%s: operands are not scalar", t)
	}
	// strings: only comparison ops handled above
	if a.S[0].So == SReal || b.S[0].So == SReal {
		toR := func(v Val) Term {
			if v.S[0].So == SReal {
				return v.S[0]
			}
			return App("to_real", SReal, v.S[0])
		}
		x, y := toR(a), toR(b)
		switch t.Op {
		case "<":
			return scalar(boolT, Lt(x, y)), nil
		case "<=":
			return scalar(boolT, Le(x, y)), nil
		case ">":
			return scalar(boolT, Gt(x, y)), nil
		case ">=":
			return scalar(boolT, Ge(x, y)), nil
		case "+", "-", "*", "/":
			return scalar(types.Typ[types.Float64], App(t.Op, SReal, x, y)), nil
		}
	}
	if (t.Op == "<<" || t.Op == ">>") && u.Mode == ModeBV && a.T != nil {
		ai, _ := intInfoOf(a.T)
		bt := b.One()
		bi := ai
		if b.T != nil {
			bi, _ = intInfoOf(b.T)
		} else if b.Re != nil {
			bt = b.Re(ai)
		} else if k, ok := constOf(bt); ok {
			bt = BVLit(k, ai.w)
		}
		tk := token.SHL
		if t.Op == ">>" {
			tk = token.SHR
		}
		r, err := u.BinArith(tk, a.One(), bt, ai, bi)
		if err != nil {
			return Val{}, fmt.Errorf("%s: %v", t, err)
		}
		return scalar(a.T, r.T), nil
	}
	a, b, ii, err := e.coerce(a, b)
	if err != nil {
		return Val{}, fmt.Errorf("%s: %v", t, err)
	}
	rt := a.T
	if rt == nil {
		rt = b.T
	}
	var op token.Token
	switch t.Op {
	case "<":
		op = token.LSS
	case "<=":
		op = token.LEQ
	case ">":
		op = token.GTR
	case ">=":
		op = token.GEQ
	}
	if op != token.ILLEGAL {
		return scalar(boolT, u.Cmp(op, a.One(), b.One(), ii)), nil
	}
	if u.Mode == ModeInt || (a.T == nil && b.T == nil) {
		// mathematical arithmetic in specifications (no wrap-around)
		ka, oka := constOf(a.One())
		kb, okb := constOf(b.One())
		if oka && okb {
			var r *big.Int
			switch t.Op {
			case "+":
				r = new(big.Int).Add(ka, kb)
			case "-":
				r = new(big.Int).Sub(ka, kb)
			case "*":
				r = new(big.Int).Mul(ka, kb)
			case "<<":
				r = new(big.Int).Lsh(ka, uint(kb.Int64()))
			case ">>":
				r = new(big.Int).Rsh(ka, uint(kb.Int64()))
			case "/":
				if kb.Sign() != 0 {
					r = new(big.Int).Quo(ka, kb)
				}
			case "%":
				if kb.Sign() != 0 {
					r = new(big.Int).Rem(ka, kb)
				}
			case "&":
				r = new(big.Int).And(ka, kb)
			case "|":
				r = new(big.Int).Or(ka, kb)
			}
			if r != nil {
				v := scalar(rt, BigLit(r))
				if rt == nil {
					v.Re = func(ii intInfo) Term { return u.IntConst(r, ii) }
				}
				return v, nil
			}
		}
		if a.T == nil && b.T == nil && a.Re != nil && b.Re != nil && (t.Op == "+" || t.Op == "-" || t.Op == "*") {
			ar, br := a.Re, b.Re
			tk := map[string]token.Token{"+": token.ADD, "-": token.SUB, "*": token.MUL}[t.Op]
			v := scalar(nil, App(t.Op, SInt, a.One(), b.One()))
			v.Re = func(ii intInfo) Term {
				r, _ := u.BinArith(tk, ar(ii), br(ii), ii, ii)
				return r.T
			}
			return v, nil
		}
		switch t.Op {
		case "+":
			return scalar(rt, App("+", SInt, a.One(), b.One())), nil
		case "-":
			return scalar(rt, App("-", SInt, a.One(), b.One())), nil
		case "*":
			return scalar(rt, App("*", SInt, a.One(), b.One())), nil
		case "/":
			return scalar(rt, App("div", SInt, a.One(), b.One())), nil
		case "%":
			return scalar(rt, App("mod", SInt, a.One(), b.One())), nil
		}
		var tk token.Token
		switch t.Op {
		case "<<":
			tk = token.SHL
		case ">>":
			tk = token.SHR
		case "&":
			tk = token.AND
		}
		if tk != token.ILLEGAL {
			r, err := u.BinArith(tk, a.One(), b.One(), intInfo{64, false}, intInfo{64, false})
			if err != nil {
				return Val{}, fmt.Errorf("%s: %v", t, err)
			}
			return scalar(rt, r.T), nil
		}
		return Val{}, fmt.Errorf("operator %s unsupported in mode int contracts", t.Op)
	}
	var tk token.Token
	switch t.Op {
	case "+":
		tk = token.ADD
	case "-":
		tk = token.SUB
	case "*":
		tk = token.MUL
	case "/":
		tk = token.QUO
	case "%":
		tk = token.REM
	case "<<":
		tk = token.SHL
	case ">>":
		tk = token.SHR
	case "&":
		tk = token.AND
	case "|":
		tk = token.OR
	case "^":
		tk = token.XOR
	case "&^":
		tk = token.AND_NOT
	}
	bi := ii
	if b.T != nil {
		bi, _ = intInfoOf(b.T)
	}
	r, err := u.BinArith(tk, a.One(), b.One(), ii, bi)
	if err != nil {
		return Val{}, fmt.Errorf("%s: %v", t, err)
	}
	return scalar(rt, r.T), nil
}

func (e *Env) equal(a, b Val) (Term, error) {
	// nil against anything
	isNil := func(v Val) bool {
		if v.T == nil {
			return false
		}
		bt, ok := v.T.(*types.Basic)
		return ok && bt.Kind() == types.UntypedNil
	}
	if isNil(a) && isNil(b) {
		return True, nil
	}
	if isNil(b) {
		a, b = b, a
	}
	if isNil(a) {
		if b.P != nil {
			return Not(b.P.NonNil()), nil
		}
		if b.F != nil {
			return False, nil
		}
		// slice: ptr == 0 ; iface: tag == 0 ; refs: == 0
		return Eq(b.S[0], IntLit(0)), nil
	}
	if a.P != nil || b.P != nil || a.F != nil || b.F != nil {
		return Term{}, fmt.Errorf("cannot compare engine-level pointers")
	}
	if len(a.S) == 1 && len(b.S) == 1 && (a.T == nil || b.T == nil) && a.S[0].So != SBool && a.S[0].So != SStr {
		var err error
		a, b, _, err = e.coerce(a, b)
		if err != nil {
			return Term{}, err
		}
	}
	if len(a.S) != len(b.S) {
		return Term{}, fmt.Errorf("operands have different shapes (%v vs %v)", a.T, b.T)
	}
	if a.T != nil && classify(a.T) == KSlice && len(a.S) == 4 {
		// slice header identity
		return And(Eq(a.S[0], b.S[0]), Eq(a.S[1], b.S[1]), Eq(a.S[2], b.S[2])), nil
	}
	var eqs []Term
	for i := range a.S {
		if a.S[i].So != b.S[i].So {
			return Term{}, fmt.Errorf("sort mismatch %s vs %s", a.S[i].So, b.S[i].So)
		}
		eqs = append(eqs, Eq(a.S[i], b.S[i]))
	}
	return And(eqs...), nil
}

func (e *Env) quant(t EQuant) (Val, error) {
	u := e.u()
	t = EQuant{t.Forall, t.Vars, e.inlineSpecs(t.Body, 0)}
	n := e.clone()
	var decls []string
	var ranges []Term
	e.x.quantDepth++
	defer func() { e.x.quantDepth-- }()
	for _, b := range t.Vars {
		u.n++
		name := fmt.Sprintf("q!%d_%s", u.n, b.Name)
		var so Sort
		var ty types.Type
		switch b.Type {
		case "int", "Int":
			if b.Type == "Int" || u.Mode == ModeInt {
				so = SInt
			} else {
				so = BVSort(64)
			}
			ty = types.Typ[types.Int]
			if b.Type == "Int" {
				ty = nil
			}
		default:
			var err error
			ty, err = e.x.prog.LookupType(b.Type, e.pkg)
			if err != nil {
				return Val{}, err
			}
			ls := u.Layout(ty)
			if len(ls) != 1 {
				return Val{}, fmt.Errorf("quantified variable %s must be scalar", b.Name)
			}
			so = ls[0].So
			if ls[0].Int != nil {
				ranges = append(ranges, u.RangeFact(Term{name, so}, *ls[0].Int))
			}
		}
		decls = append(decls, fmt.Sprintf("(%s %s)", name, so))
		bv := Val{T: ty, S: []Term{{name, so}}}
		// index shift: if the body reads s[i] for a slice s that does not depend on the bound variables, quantify over
		// the absolute position j = off(s) + i, so that the element term (select A j) is a usable trigger.
		if (b.Type == "int" || b.Type == "Int") && u.Mode == ModeInt {
			if base := findIndexedBy(t.Body, b.Name, boundNames(t)); base != nil {
				if sv, err := e.Eval(base); err == nil && sv.T != nil && classify(sv.T) == KSlice && sv.S[1].S != "0" {
					bv = Val{T: ty, S: []Term{App("-", SInt, Term{name, so}, sv.S[1])}}
				}
			}
		}
		n.names[b.Name] = bv
	}
	body, err := n.Bool(t.Body)
	if err != nil {
		return Val{}, err
	}
	q := "forall"
	if t.Forall {
		body = Implies(And(ranges...), body)
	} else {
		q = "exists"
		body = And(append(ranges, body)...)
	}
	// triggers: for every bound variable that indexes a heap component directly, (select C v) is a good trigger
	// (preferring the ghost owner component of the list model); only used if every variable gets one.
	pat := ""
	if t.Forall {
		var alts [][]string
		for _, d := range decls {
			name := strings.Fields(d[1:])[0]
			// every term (select A v) with A any (balanced) array term — a component symbol, the elements of a slice
			// (select E ptr), the key set of a nested map (select MD (select (select MV m) k)), …
			ms := selectTermsOf(body.S, name)
			seen := map[string]bool{}
			var mine []string
			for _, m := range ms {
				if !seen[m[0]] {
					seen[m[0]] = true
					if strings.Contains(m[1], "$owner") {
						mine = append([]string{m[0]}, mine...)
					} else {
						mine = append(mine, m[0])
					}
				}
			}
			if len(mine) > 6 {
				mine = mine[:6]
			}
			alts = append(alts, mine)
		}
		ok := len(alts) > 0
		for _, a := range alts {
			if len(a) == 0 {
				ok = false
			}
		}
		if ok {
			// base multi-pattern: the preferred term of every variable; variants: swap in each alternative
			base := make([]string, len(alts))
			for i, a := range alts {
				base[i] = a[0]
			}
			pat = " :pattern (" + strings.Join(base, " ") + ")"
			for i, a := range alts {
				for _, alt := range a[1:] {
					v := append([]string(nil), base...)
					v[i] = alt
					pat += " :pattern (" + strings.Join(v, " ") + ")"
				}
			}
		}
	}
	if pat != "" {
		return scalar(types.Typ[types.Bool], Term{fmt.Sprintf("(%s (%s) (! %s%s))", q, strings.Join(decls, " "), body.S, pat), SBool}), nil
	}
	return scalar(types.Typ[types.Bool], Term{fmt.Sprintf("(%s (%s) %s)", q, strings.Join(decls, " "), body.S), SBool}), nil
}

// selectTermsOf finds the terms "(select A v)" in s whose index is exactly the symbol v; it returns, like a regexp
// submatch list, pairs {whole term, A}.
func selectTermsOf(s, v string) [][]string {
	var out [][]string
	suffix := " " + v + ")"
	for from := 0; ; {
		i := strings.Index(s[from:], suffix)
		if i < 0 {
			break
		}
		end := from + i + len(suffix) // one past the closing paren
		from = from + i + 1
		// walk back over the balanced array term that ends right before " v)"
		j := end - len(suffix) // index of the space before v
		k := j - 1
		if k < 0 {
			continue
		}
		start := -1
		if s[k] == ')' {
			depth := 0
			for p := k; p >= 0; p-- {
				if s[p] == ')' {
					depth++
				} else if s[p] == '(' {
					depth--
					if depth == 0 {
						start = p
						break
					}
				}
			}
		} else {
			p := k
			for p >= 0 && s[p] != ' ' && s[p] != '(' && s[p] != ')' {
				p--
			}
			start = p + 1
		}
		if start < 8 || s[start-8:start] != "(select " {
			continue
		}
		arr := s[start:j]
		bad := false
		for _, op := range []string{"(ite ", "(and ", "(or ", "(not ", "(=> ", "(= ", "(< ", "(<= ", "(> ", "(>= ", "(forall ", "(exists ", "(let ", "(distinct "} {
			if strings.Contains(arr, op) {
				bad = true // connectives cannot occur in patterns
				break
			}
		}
		if bad {
			continue
		}
		out = append(out, []string{s[start-8 : end], arr})
	}
	return out
}

// inlineSpecs replaces calls of (plain, old-free) spec functions by their bodies at AST level, so that syntactic
// analyses (index shift) see through them.
func (e *Env) inlineSpecs(ex Expr, depth int) Expr {
	if ex == nil || depth > 8 {
		return ex
	}
	rec := func(x Expr) Expr { return e.inlineSpecs(x, depth) }
	switch t := ex.(type) {
	case EUnary:
		return EUnary{t.Op, rec(t.X)}
	case EBinary:
		return EBinary{t.Op, rec(t.X), rec(t.Y)}
	case ECond:
		return ECond{rec(t.C), rec(t.A), rec(t.B)}
	case ESel:
		return ESel{rec(t.X), t.Name}
	case EIndex:
		return EIndex{rec(t.X), rec(t.I)}
	case EOld:
		return EOld{X: rec(t.X), Label: t.Label}
	case EQuant:
		return EQuant{t.Forall, t.Vars, rec(t.Body)}
	case ETypeIs:
		return ETypeIs{rec(t.X), t.Type}
	case ECast:
		return ECast{rec(t.X), t.Type}
	case EDeref:
		return EDeref{rec(t.X)}
	case ECall:
		args := make([]Expr, len(t.Args))
		for i, a := range t.Args {
			args[i] = rec(a)
		}
		sf, ok := e.x.cs.Specs[t.Fn]
		if !ok || sf.Uninterp || sf.Body == nil || (sf.HasMode && sf.Mode != e.u().Mode) || len(sf.Params) != len(args) {
			return ECall{t.Fn, args}
		}
		hasOld := false
		walkExpr(sf.Body, func(x Expr) {
			if _, ok := x.(EOld); ok {
				hasOld = true
			}
		})
		if hasOld {
			return ECall{t.Fn, args}
		}
		sub := map[string]Expr{}
		for i, p := range sf.Params {
			sub[p.Name] = args[i]
		}
		return e.inlineSpecs(substExpr(sf.Body, sub), depth+1)
	}
	return ex
}

func substExpr(ex Expr, sub map[string]Expr) Expr {
	if ex == nil {
		return nil
	}
	rec := func(x Expr) Expr { return substExpr(x, sub) }
	switch t := ex.(type) {
	case EIdent:
		if r, ok := sub[t.Name]; ok {
			return r
		}
		return t
	case EUnary:
		return EUnary{t.Op, rec(t.X)}
	case EBinary:
		return EBinary{t.Op, rec(t.X), rec(t.Y)}
	case ECond:
		return ECond{rec(t.C), rec(t.A), rec(t.B)}
	case ESel:
		return ESel{rec(t.X), t.Name}
	case EIndex:
		return EIndex{rec(t.X), rec(t.I)}
	case ECall:
		args := make([]Expr, len(t.Args))
		for i, a := range t.Args {
			args[i] = rec(a)
		}
		return ECall{t.Fn, args}
	case EOld:
		return EOld{X: rec(t.X), Label: t.Label}
	case EQuant:
		inner := map[string]Expr{}
		for k, v := range sub {
			inner[k] = v
		}
		for _, b := range t.Vars {
			delete(inner, b.Name)
		}
		return EQuant{t.Forall, t.Vars, substExpr(t.Body, inner)}
	case ETypeIs:
		return ETypeIs{rec(t.X), t.Type}
	case ECast:
		return ECast{rec(t.X), t.Type}
	case EDeref:
		return EDeref{rec(t.X)}
	}
	return ex
}

var shiftRe = regexp.MustCompile(`^\(([+-]) \(- (q![0-9]+_[A-Za-z0-9_]+) ([^\s()]+)\) ([0-9]+)\)$`)

func boundNames(t EQuant) map[string]bool {
	m := map[string]bool{}
	for _, b := range t.Vars {
		m[b.Name] = true
	}
	return m
}

// findIndexedBy returns the base expression of the first x[v] in e whose base does not mention bound variables.
func findIndexedBy(e Expr, v string, bound map[string]bool) Expr {
	var found Expr
	var mentions func(e Expr) bool
	mentions = func(e Expr) bool {
		m := false
		walkExpr(e, func(x Expr) {
			if id, ok := x.(EIdent); ok && bound[id.Name] {
				m = true
			}
		})
		return m
	}
	walkExpr(e, func(x Expr) {
		if found != nil {
			return
		}
		if ix, ok := x.(EIndex); ok {
			if id, ok := ix.I.(EIdent); ok && id.Name == v && !mentions(ix.X) {
				found = ix.X
			}
		}
	})
	return found
}

func walkExpr(e Expr, f func(Expr)) {
	if e == nil {
		return
	}
	f(e)
	switch t := e.(type) {
	case EUnary:
		walkExpr(t.X, f)
	case EBinary:
		walkExpr(t.X, f)
		walkExpr(t.Y, f)
	case ECond:
		walkExpr(t.C, f)
		walkExpr(t.A, f)
		walkExpr(t.B, f)
	case ESel:
		walkExpr(t.X, f)
	case EIndex:
		walkExpr(t.X, f)
		walkExpr(t.I, f)
	case ECall:
		for _, a := range t.Args {
			walkExpr(a, f)
		}
	case EOld:
		walkExpr(t.X, f)
	case EQuant:
		walkExpr(t.Body, f)
	case ETypeIs:
		walkExpr(t.X, f)
	case ECast:
		walkExpr(t.X, f)
	case EDeref:
		walkExpr(t.X, f)
	}
}

func (e *Env) callExpr(t ECall) (Val, error) {
	u := e.u()
	boolT := types.Typ[types.Bool]
	switch t.Fn {
	case "len", "cap":
		v, err := e.Eval(t.Args[0])
		if err != nil {
			return Val{}, err
		}
		if v.T == nil {
			return Val{}, fmt.Errorf("len of untyped value")
		}
		switch classify(v.T) {
		case KSlice:
			if t.Fn == "cap" {
				return scalar(types.Typ[types.Int], v.S[3]), nil
			}
			return scalar(types.Typ[types.Int], v.S[2]), nil
		case KString:
			return scalar(types.Typ[types.Int], e.x.strLen(v.One())), nil
		case KMap:
			return scalar(types.Typ[types.Int], e.x.mapCard(e.st, v.T.Underlying().(*types.Map), v.One())), nil
		}
		return Val{}, fmt.Errorf("len of %s", v.T)
	case "has": // has(m, k)
		m, err := e.Eval(t.Args[0])
		if err != nil {
			return Val{}, err
		}
		k, err := e.Eval(t.Args[1])
		if err != nil {
			return Val{}, err
		}
		mt, ok := m.T.Underlying().(*types.Map)
		if !ok {
			return Val{}, fmt.Errorf("has: not a map")
		}
		_, okT := e.x.mapRead(e.st, mt, m.One(), k.One())
		return scalar(boolT, okT), nil
	case "min", "max":
		a, err := e.Eval(t.Args[0])
		if err != nil {
			return Val{}, err
		}
		b, err := e.Eval(t.Args[1])
		if err != nil {
			return Val{}, err
		}
		a, b, ii, err := e.coerce(a, b)
		if err != nil {
			return Val{}, err
		}
		var c Term
		if t.Fn == "min" {
			c = u.Cmp(token.LSS, a.One(), b.One(), ii)
		} else {
			c = u.Cmp(token.GTR, a.One(), b.One(), ii)
		}
		rt := a.T
		if rt == nil {
			rt = b.T
		}
		return scalar(rt, Ite(c, a.One(), b.One())), nil
	case "string": // string(b) for a byte slice b: the same term the code's conversion produces
		v, err := e.Eval(t.Args[0])
		if err != nil {
			return Val{}, err
		}
		if v.T != nil && classify(v.T) == KString {
			return v, nil
		}
		if v.T == nil || classify(v.T) != KSlice {
			return Val{}, fmt.Errorf("string(): not a byte slice")
		}
		r, err := e.x.convert(e.st, v, v.T, types.Typ[types.String])
		return r, err
	case "concat": // string concatenation
		a, err := e.Eval(t.Args[0])
		if err != nil {
			return Val{}, err
		}
		b, err := e.Eval(t.Args[1])
		if err != nil {
			return Val{}, err
		}
		return scalar(types.Typ[types.String], App("scat", SStr, a.One(), b.One())), nil
	case "chansent": // number of values sent on a channel by the code under verification
		v, err := e.Eval(t.Args[0])
		if err != nil {
			return Val{}, err
		}
		return scalar(nil, Select(u.comp(e.st, "GF$chan$sent", ArrSort(SInt, SInt)), v.One())), nil
	case "chanlast": // the last value sent on a channel of interface element type
		v, err := e.Eval(t.Args[0])
		if err != nil {
			return Val{}, err
		}
		ct, ok := types.Unalias(v.T).Underlying().(*types.Chan)
		if !ok {
			return Val{}, fmt.Errorf("chanlast: not a channel")
		}
		if ls := u.Layout(ct.Elem()); len(ls) == 1 {
			return Val{T: ct.Elem(), S: []Term{Select(u.comp(e.st, "GF$chan$last1%"+string(ls[0].So), ArrSort(SInt, ls[0].So)), v.One())}}, nil
		}
		return Val{T: ct.Elem(), S: []Term{
			Select(u.comp(e.st, "GF$chan$last%tag", ArrSort(SInt, SInt)), v.One()),
			Select(u.comp(e.st, "GF$chan$last%val", ArrSort(SInt, SInt)), v.One())}}, nil
	case "called": // called(Name#k): how many times that call site has been executed on this path
		if len(t.Args) != 1 {
			return Val{}, fmt.Errorf("called(Name#k): one argument")
		}
		tag := t.Args[0].String()
		if g, ok := e.st.Ghost["calls."+tag]; ok {
			return scalar(nil, g), nil
		}
		return Val{}, fmt.Errorf("called(%s): no such call site counter (tags are Name#k in source order)", tag)
	case "spawned": // number of go statements executed on this path
		if g, ok := e.st.Ghost["go.count"]; ok {
			return scalar(nil, g), nil
		}
		return Val{}, fmt.Errorf("spawned(): counter not initialised")
	case "now": // the ghost clock: the latest reading of time.Now()
		return scalar(nil, u.ghost(e.st, "time.now", SInt)), nil
	case "visited": // visited(k) / visited(n, k): has key k already been handed out by the (n-th, in source order) range over a map?
		if e.fr == nil {
			return Val{}, fmt.Errorf("visited() outside a function")
		}
		ord := 1
		karg := t.Args[len(t.Args)-1]
		if len(t.Args) == 2 {
			if lit, ok := t.Args[0].(EInt); ok {
				fmt.Sscanf(lit.V, "%d", &ord)
			}
		}
		keys := e.fr.mapRangeKeys()
		if ord < 1 || ord > len(keys) {
			return Val{}, fmt.Errorf("unknown identifier visited(%d): the function has %d range-over-map loops", ord, len(keys))
		}
		vv, ok := e.st.Vars[keys[ord-1]]
		if !ok {
			return scalar(boolT, False), nil // the loop has not started on this path
		}
		kv, err := e.Eval(karg)
		if err != nil {
			return Val{}, err
		}
		return scalar(boolT, Select(vv.S[0], kv.One())), nil
	case "live": // a non-nil reference to an object that exists in the current state (allocated so far)
		v, err := e.Eval(t.Args[0])
		if err != nil {
			return Val{}, err
		}
		ref := v.S[0]
		if v.T != nil {
			if _, isIface := v.T.Underlying().(*types.Interface); isIface && len(v.S) == 2 {
				ref = v.S[1]
			}
		}
		g := And(Neq(ref, IntLit(0)), Ge(App("root", SInt, ref), IntLit(1)), Le(App("root", SInt, ref), e.st.Alloc))
		if et, ok := ptrStructElem(v.T); ok {
			// … and it is an object of the pointed-to struct type (references are untyped integers in the model)
			// … a whole object (not a struct embedded in another object) of that type
			g = And(g, Eq(App("dyn", SInt, ref), IntLit(int64(structTypeID(et)))), Eq(App("root", SInt, ref), ref))
		}
		return scalar(boolT, g), nil
	case "isfresh": // allocated after the pre-state
		v, err := e.Eval(t.Args[0])
		if err != nil {
			return Val{}, err
		}
		if e.old == nil {
			return Val{}, fmt.Errorf("isfresh without pre-state")
		}
		ref := v.S[0]
		if v.T != nil {
			if _, isIface := v.T.Underlying().(*types.Interface); isIface && len(v.S) == 2 {
				ref = v.S[1] // the object behind the interface value
			}
		}
		return scalar(boolT, Gt(App("root", SInt, ref), e.old.Alloc)), nil
	case "int": // widen to mathematical / Go int
		v, err := e.Eval(t.Args[0])
		if err != nil {
			return Val{}, err
		}
		if v.T == nil {
			return v, nil
		}
		ii, ok := intInfoOf(v.T)
		if !ok {
			return Val{}, fmt.Errorf("int(): not an integer")
		}
		return scalar(types.Typ[types.Int], u.Convert(v.One(), ii, intInfo{64, true})), nil
	case "uint64", "uint32", "uint16", "uint8", "int64", "int32", "byte":
		v, err := e.Eval(t.Args[0])
		if err != nil {
			return Val{}, err
		}
		ty := types.Universe.Lookup(t.Fn).Type()
		ti, _ := intInfoOf(ty)
		if v.T == nil {
			k, ok := constOf(v.One())
			if !ok {
				if u.Mode == ModeInt {
					return scalar(ty, v.One()), nil
				}
				return Val{}, fmt.Errorf("%s(): untyped non-constant", t.Fn)
			}
			return scalar(ty, u.IntConst(k, ti)), nil
		}
		fi, _ := intInfoOf(v.T)
		return scalar(ty, u.Convert(v.One(), fi, ti)), nil
	case "unchanged": // unchanged(e) == (e == old(e))
		var eqs []Term
		for _, a := range t.Args {
			nv, err := e.Eval(a)
			if err != nil {
				return Val{}, err
			}
			ov, err := e.Eval(EOld{X: a})
			if err != nil {
				return Val{}, err
			}
			eq, err := e.equal(nv, ov)
			if err != nil {
				return Val{}, err
			}
			eqs = append(eqs, eq)
		}
		return scalar(boolT, And(eqs...)), nil
	case "typeid":
		ty, err := e.x.prog.LookupType(t.Args[0].String(), e.pkg)
		if err != nil {
			return Val{}, err
		}
		return scalar(nil, u.TypeID(ty)), nil
	case "tag":
		v, err := e.Eval(t.Args[0])
		if err != nil {
			return Val{}, err
		}
		return scalar(nil, v.S[0]), nil
	case "off": // offset of a slice within its backing array
		v, err := e.Eval(t.Args[0])
		if err != nil {
			return Val{}, err
		}
		if v.T == nil || classify(v.T) != KSlice {
			return Val{}, fmt.Errorf("off(): not a slice")
		}
		return scalar(types.Typ[types.Int], v.S[1]), nil
	case "ref": // identity of a pointer value as an Int
		v, err := e.Eval(t.Args[0])
		if err != nil {
			return Val{}, err
		}
		return scalar(nil, v.S[0]), nil
	}
	sf, ok := e.x.cs.Specs[t.Fn]
	if !ok {
		return Val{}, fmt.Errorf("unknown function %s in contract", t.Fn)
	}
	if len(sf.Params) != len(t.Args) {
		return Val{}, fmt.Errorf("%s: expected %d arguments", t.Fn, len(sf.Params))
	}
	if e.depth > 20 {
		return Val{}, fmt.Errorf("%s: spec function recursion too deep", t.Fn)
	}
	n := e.clone()
	n.depth = e.depth + 1
	n.names = map[string]Val{}
	for i, p := range sf.Params {
		v, err := e.Eval(t.Args[i])
		if err != nil {
			return Val{}, err
		}
		// literal arguments take the declared parameter type
		if v.T == nil {
			if ty, err := e.x.prog.LookupType(p.Type, e.pkg); err == nil {
				if ii, ok := intInfoOf(ty); ok {
					if k, isC := constOf(v.One()); isC {
						v = scalar(ty, u.IntConst(k, ii))
					} else {
						v.T = ty
					}
				}
			}
		}
		n.names[p.Name] = v
	}
	n.fr = nil
	if sf.Uninterp || (sf.HasMode && sf.Mode != u.Mode) {
		return n.uninterpreted(sf)
	}
	return n.Eval(sf.Body)
}

// uninterpreted applies a spec function whose body cannot be expanded in this unit's integer mode:
// an uninterpreted function of its arguments and of the state named in its reads clause
// (so anything that leaves that state alone leaves the function's value alone).
func (e *Env) uninterpreted(sf *SpecFunc) (Val, error) {
	u := e.u()
	var args []Term
	for _, p := range sf.Params {
		v := e.names[p.Name]
		if v.P != nil || v.F != nil {
			return Val{}, fmt.Errorf("%s: engine-level argument to an abstract spec function", sf.Name)
		}
		args = append(args, v.S...)
	}
	for _, it := range sf.Reads {
		ts, err := e.x.modTargets(e, it)
		if err != nil {
			return Val{}, fmt.Errorf("%s reads %s: %v", sf.Name, it, err)
		}
		for _, t := range ts {
			if t.All || t.Ref == nil {
				return Val{}, fmt.Errorf("%s reads %s: not a single location", sf.Name, it)
			}
			args = append(args, Select(u.comp(e.st, t.Comp, t.So), *t.Ref))
		}
	}
	rt, err := e.x.prog.LookupType(sf.Result, e.pkg)
	if err != nil {
		return Val{}, err
	}
	ls := u.Layout(rt)
	if len(ls) != 1 {
		return Val{}, fmt.Errorf("%s: abstract spec functions must return a scalar", sf.Name)
	}
	var sorts []Sort
	for _, a := range args {
		sorts = append(sorts, a.So)
	}
	name := "spec$" + sf.Name
	u.DeclareFun(name, sorts, ls[0].So)
	if !sf.Uninterp {
		u.Trust("abstract spec function " + sf.Name + " (defined in another integer mode; uninterpreted here, frame by its reads clause)")
	}
	return scalar(rt, App(name, ls[0].So, args...)), nil
}

// globalFacts: nothing beyond what LoadAddr states for error sentinels.
func (x *Exec) globalFacts(o *types.Var, v Val) {}

var ghostCompRe = regexp.MustCompile(`^(GF\$[^@!]*?)(?:\.havoc|\.hv)?(?:[@!]\d+)?$`)

// setGhostField performs the ghost assignment xv.$name = v in state e.st (scalar-layout ghost fields only).
func (e *Env) setGhostField(xv Val, name string, v Val) error {
	u := e.u()
	cur, err := e.ghostField(xv, name)
	if err != nil {
		return err
	}
	if cur.T == nil {
		return fmt.Errorf("ghost set: array-valued ghost field $%s cannot be assigned", name)
	}
	if len(cur.S) != len(v.S) {
		return fmt.Errorf("ghost set $%s: value has %d components, field has %d", name, len(v.S), len(cur.S))
	}
	// cur.S[i] is (select <comp> <ref>): recover both
	for i := range cur.S {
		t := cur.S[i].S
		if !strings.HasPrefix(t, "(select ") {
			return fmt.Errorf("ghost set $%s: unexpected term %s", name, t)
		}
		parts := sexpTop(t[1 : len(t)-1])
		if len(parts) != 3 {
			return fmt.Errorf("ghost set $%s: unexpected term %s", name, t)
		}
		comp, ref := parts[1], parts[2]
		var cname string
		for k, ht := range e.st.Heap {
			if ht.S == comp {
				cname = k
			}
		}
		if cname == "" {
			// not materialised in this state yet: the term is <component>@<epoch>
			if m := ghostCompRe.FindStringSubmatch(comp); m != nil {
				cname = m[1]
			}
		}
		if cname == "" {
			return fmt.Errorf("ghost set $%s: component %s not found", name, comp)
		}
		arr := u.comp(e.st, cname, ArrSort(SInt, cur.S[i].So))
		u.setComp(e.st, cname, Store(arr, Term{ref, SInt}, v.S[i]))
	}
	return nil
}
