package main

import (
	"strings"
	"fmt"
	"go/constant"
	"go/token"
	"go/types"
	"math/big"

	"golang.org/x/tools/go/ssa"
)

var bigZero = big.NewInt(0)

// val evaluates an SSA operand.
func (x *Exec) val(fr *Frame, st *State, v ssa.Value) (Val, error) {
	switch t := v.(type) {
	case *ssa.Const:
		return x.constVal(t)
	case *ssa.Function:
		return Val{T: t.Type(), F: &Closure{Fn: t}}, nil
	case *ssa.Global:
		et := t.Type().Underlying().(*types.Pointer).Elem()
		return Val{T: t.Type(), P: ptrTo(Addr{Kind: AGlobal, T: et, Var: t.Pkg.Pkg.Path() + "." + t.Name()})}, nil
	case *ssa.Builtin:
		return Val{}, engineErr("builtin %s used as a value", t.Name())
	}
	if r, ok := fr.regs[v]; ok {
		return r, nil
	}
	return Val{}, engineErr("%s: value %s (%T) used before definition", fr.fn, v.Name(), v)
}

func (x *Exec) constVal(c *ssa.Const) (Val, error) {
	t := c.Type()
	if c.Value == nil {
		// zero value / nil
		if b, ok := t.Underlying().(*types.Basic); ok && b.Kind() == types.UntypedNil {
			return Val{T: t, S: []Term{IntLit(0)}}, nil
		}
		return x.u.ZeroVal(t), nil
	}
	switch classify(t) {
	case KBool:
		if constant.BoolVal(c.Value) {
			return scalar(t, True), nil
		}
		return scalar(t, False), nil
	case KInt:
		ii, _ := intInfoOf(t)
		n, ok := constant.Val(constant.ToInt(c.Value)).(*big.Int)
		if !ok {
			i64, _ := constant.Int64Val(constant.ToInt(c.Value))
			n = big.NewInt(i64)
		}
		return scalar(t, x.u.IntConst(n, ii)), nil
	case KString:
		return scalar(t, x.u.StrLit(constant.StringVal(c.Value))), nil
	case KFloat:
		f, _ := constant.Float64Val(c.Value)
		return scalar(t, Term{fmt.Sprintf("%f", f), SReal}), nil
	}
	return Val{}, engineErr("constant of type %s not supported", t)
}

// ptrOf views a pointer value as a guarded address set.
func (x *Exec) ptrOf(v Val) (*PtrVal, error) {
	if v.P != nil {
		return v.P, nil
	}
	pt, ok := types.Unalias(v.T).Underlying().(*types.Pointer)
	if !ok {
		return nil, engineErr("ptrOf: %s is not a pointer", v.T)
	}
	return ptrTo(Addr{Kind: ACell, T: pt.Elem(), Ref: v.One()}), nil
}

func (x *Exec) oblig(kind string, pos token.Pos, text string, pc, goal Term) {
	if x.waived(kind) {
		x.u.Trust(fmt.Sprintf("%s: %s obligations waived by contract", x.topName, kind))
		return
	}
	if goal.IsTrue() {
		return
	}
	x.u.AddObligation(x.topName, kind, pos, x.labels, text, pc, goal)
	switch kind {
	case "nil", "index", "slice", "assert-type", "div", "make":
		// assert-then-assume: execution continues past a run-time check only if it succeeded, so later
		// obligations on this path may rely on it (the check itself was recorded before this assumption).
		x.u.Assume(Implies(pc, goal))
	}
}

// instr executes one non-terminator instruction.
func (x *Exec) instr(fr *Frame, st *State, ins ssa.Instruction) error {
	u := x.u
	switch t := ins.(type) {
	case *ssa.DebugRef:
		return nil
	case *ssa.Alloc:
		et := t.Type().Underlying().(*types.Pointer).Elem()
		if at, isArr := et.Underlying().(*types.Array); isArr {
			// arrays are modelled as backing objects of slices, whether or not they escape
			sl := x.newSlice(st, at.Elem(), u.IntC(at.Len()), u.IntC(at.Len()), true)
			fr.regs[t] = Val{T: t.Type(), S: []Term{sl.S[0]}}
			return nil
		}
		if !t.Heap {
			name := t.Comment
			if name == "" {
				name = t.Name()
			}
			// name#k: the k-th local of that name in source order (independent of the order in which the engine
			// visits the blocks)
			rank := fr.allocRank(t)
			key := fmt.Sprintf("f%d.%s", fr.id, name)
			if rank > 1 {
				key = fmt.Sprintf("f%d.%s#%d", fr.id, name, rank)
			}
			st.Vars[key] = u.ZeroVal(et)
			fr.regs[t] = Val{T: t.Type(), P: ptrTo(Addr{Kind: ALocal, T: et, Var: key})}
			return nil
		}
		tid := 0
		if classify(et) == KStruct {
			tid = structTypeID(et)
		}
		ref := u.NewRefTyped(st, t.Comment, tid)
		if classify(et) == KStruct {
			u.StoreStruct(st, True, ref, et, u.ZeroVal(et))
			fr.regs[t] = Val{T: t.Type(), S: []Term{ref}}
		} else if classify(et) == KOpaque {
			fr.regs[t] = Val{T: t.Type(), S: []Term{ref}}
		} else {
			a := Addr{Kind: ACell, T: et, Ref: ref}
			u.StoreAddr(st, True, a, u.ZeroVal(et))
			fr.regs[t] = Val{T: t.Type(), S: []Term{ref}}
			fr.cells = append(fr.cells, frameCell{ref, et, t})
			if t.Comment != "" {
				// remember source name for contracts: a captured variable
				key := fmt.Sprintf("f%d.cell.%s", fr.id, t.Comment)
				fr.localKeys["&"+t.Comment] = append(fr.localKeys["&"+t.Comment], key)
				st.Vars[key] = Val{T: t.Type(), S: []Term{ref}}
			}
		}
		return nil
	case *ssa.Store:
		av, err := x.val(fr, st, t.Addr)
		if err != nil {
			return err
		}
		v, err := x.val(fr, st, t.Val)
		if err != nil {
			return err
		}
		return x.store(st, av, v, t.Pos())
	case *ssa.UnOp:
		xv, err := x.val(fr, st, t.X)
		if err != nil {
			return err
		}
		switch t.Op {
		case token.MUL:
			r, err := x.load(st, xv, t.Pos())
			if err != nil {
				return err
			}
			fr.regs[t] = r
		case token.NOT:
			fr.regs[t] = scalar(t.Type(), Not(xv.One()))
		case token.SUB:
			ii, _ := intInfoOf(t.Type())
			fr.regs[t] = scalar(t.Type(), u.Define(t.Name(), u.Neg(xv.One(), ii)))
		case token.XOR:
			ii, _ := intInfoOf(t.Type())
			r, err := u.BitNot(xv.One(), ii)
			if err != nil {
				return engineErr("%s: %v", fr.fn, err)
			}
			fr.regs[t] = scalar(t.Type(), u.Define(t.Name(), r))
		case token.ARROW:
			// channel receive: arbitrary value
			r := u.FreshVal("recv", t.Type())
			fr.regs[t] = r
			u.Trust("channel receive yields an arbitrary value (no channel model)")
		default:
			return engineErr("unop %s unsupported", t.Op)
		}
		return nil
	case *ssa.BinOp:
		a, err := x.val(fr, st, t.X)
		if err != nil {
			return err
		}
		b, err := x.val(fr, st, t.Y)
		if err != nil {
			return err
		}
		r, err := x.binop(st, t.Op, a, b, t.Type(), t.Pos())
		if err != nil {
			return engineErr("%s: %v", x.fnShort(fr.fn), err)
		}
		if len(r.S) == 1 {
			r.S[0] = u.Define(t.Name(), r.S[0])
		}
		fr.regs[t] = r
		return nil
	case *ssa.FieldAddr:
		xv, err := x.val(fr, st, t.X)
		if err != nil {
			return err
		}
		stt := t.X.Type().Underlying().(*types.Pointer).Elem()
		f := structOf(stt).Field(t.Field)
		if xv.P != nil {
			// address inside a local / global / element
			var alts []PtrAlt
			for _, a := range xv.P.Alts {
				na := a.A
				switch na.Kind {
				case ALocal, AGlobal, AElem:
					na.Path = append(append([]int(nil), na.Path...), t.Field)
					na.T = f.Type()
				case ACell:
					// cell holding a struct: treat as object
					if classify(f.Type()) == KStruct {
						fr.regs[t] = Val{T: t.Type(), S: []Term{u.Sub(stt, f.Name(), na.Ref)}}
						return nil
					}
					na = Addr{Kind: AField, T: f.Type(), Ref: na.Ref, Owner: stt, Field: t.Field}
				default:
					return engineErr("FieldAddr on address kind %d", na.Kind)
				}
				alts = append(alts, PtrAlt{a.Guard, na})
			}
			fr.regs[t] = Val{T: t.Type(), P: &PtrVal{Alts: alts}}
			return nil
		}
		ref := xv.One()
		x.oblig("nil", t.Pos(), fmt.Sprintf("nil dereference at .%s", f.Name()), st.PC, Neq(ref, IntLit(0)))
		if k := classify(f.Type()); k == KStruct || k == KOpaque {
			fr.regs[t] = Val{T: t.Type(), S: []Term{u.Sub(stt, f.Name(), ref)}}
			return nil
		}
		fr.regs[t] = Val{T: t.Type(), P: ptrTo(Addr{Kind: AField, T: f.Type(), Ref: ref, Owner: stt, Field: t.Field})}
		return nil
	case *ssa.Field:
		xv, err := x.val(fr, st, t.X)
		if err != nil {
			return err
		}
		lo, hi, ft := u.slotRange(xv.T, []int{t.Field})
		fr.regs[t] = Val{T: ft, S: xv.S[lo:hi]}
		return nil
	case *ssa.IndexAddr:
		xv, err := x.val(fr, st, t.X)
		if err != nil {
			return err
		}
		iv, err := x.val(fr, st, t.Index)
		if err != nil {
			return err
		}
		idx := x.toInt(iv)
		switch tt := t.X.Type().Underlying().(type) {
		case *types.Slice:
			ptr, off, ln := xv.S[0], xv.S[1], xv.S[2]
			x.oblig("index", t.Pos(), "slice index in range", st.PC, And(u.ILe(u.IntC(0), idx), u.ILt(idx, ln)))
			fr.regs[t] = Val{T: t.Type(), P: ptrTo(Addr{Kind: AElem, T: tt.Elem(), Ref: ptr, Idx: u.Define("idx", u.IAdd(off, idx)), ElemT: tt.Elem()})}
		case *types.Pointer:
			at := tt.Elem().Underlying().(*types.Array)
			x.oblig("index", t.Pos(), "array index in range", st.PC, And(u.ILe(u.IntC(0), idx), u.ILt(idx, u.IntC(at.Len()))))
			if xv.P == nil {
				fr.regs[t] = Val{T: t.Type(), P: ptrTo(Addr{Kind: AElem, T: at.Elem(), Ref: xv.One(), Idx: idx, ElemT: at.Elem()})}
			} else if xv.P != nil && len(xv.P.Alts) == 1 {
				k, ok := constOf(idx)
				if !ok {
					return engineErr("%s: array indexed by a non-constant", x.fnShort(fr.fn))
				}
				na := xv.P.Alts[0].A
				na.Path = append(append([]int(nil), na.Path...), int(k.Int64()))
				na.T = at.Elem()
				fr.regs[t] = Val{T: t.Type(), P: ptrTo(na)}
			} else {
				return engineErr("%s: pointer-to-array indexing unsupported here", x.fnShort(fr.fn))
			}
		default:
			return engineErr("IndexAddr on %s", t.X.Type())
		}
		return nil
	case *ssa.Index:
		xv, err := x.val(fr, st, t.X)
		if err != nil {
			return err
		}
		iv, err := x.val(fr, st, t.Index)
		if err != nil {
			return err
		}
		idx := x.toInt(iv)
		switch classify(t.X.Type()) {
		case KString:
			x.oblig("index", t.Pos(), "string index in range", st.PC, And(u.ILe(u.IntC(0), idx), u.ILt(idx, x.strLen(xv.One()))))
			fr.regs[t] = scalar(t.Type(), x.strByte(xv.One(), idx))
		case KArray:
			k, ok := constOf(idx)
			if !ok {
				return engineErr("array value indexed by non-constant")
			}
			lo, hi, et := u.slotRange(xv.T, []int{int(k.Int64())})
			fr.regs[t] = Val{T: et, S: xv.S[lo:hi]}
		default:
			return engineErr("Index on %s", t.X.Type())
		}
		return nil
	case *ssa.Lookup:
		return x.lookup(fr, st, t)
	case *ssa.Slice:
		return x.slice(fr, st, t)
	case *ssa.MakeSlice:
		lv, err := x.val(fr, st, t.Len)
		if err != nil {
			return err
		}
		cv, err := x.val(fr, st, t.Cap)
		if err != nil {
			return err
		}
		ln, cp := x.toInt(lv), x.toInt(cv)
		x.oblig("make", t.Pos(), "make: 0 <= len <= cap", st.PC, And(u.ILe(u.IntC(0), ln), u.ILe(ln, cp)))
		et := t.Type().Underlying().(*types.Slice).Elem()
		fr.regs[t] = x.newSlice(st, et, ln, cp, true)
		return nil
	case *ssa.MakeMap:
		mt := t.Type().Underlying().(*types.Map)
		fr.regs[t] = scalar(t.Type(), x.newMap(st, mt))
		return nil
	case *ssa.MakeChan:
		fr.regs[t] = scalar(t.Type(), u.NewRef(st, "chan"))
		return nil
	case *ssa.MakeClosure:
		fn := t.Fn.(*ssa.Function)
		cl := &Closure{Fn: fn}
		for _, b := range t.Bindings {
			bv, err := x.val(fr, st, b)
			if err != nil {
				return err
			}
			cl.Bindings = append(cl.Bindings, bv)
		}
		fr.regs[t] = Val{T: t.Type(), F: cl}
		return nil
	case *ssa.MakeInterface:
		xv, err := x.val(fr, st, t.X)
		if err != nil {
			return err
		}
		r, err := x.makeIface(st, xv, t.X.Type(), t.Type())
		if err != nil {
			return err
		}
		fr.regs[t] = r
		return nil
	case *ssa.ChangeInterface:
		xv, err := x.val(fr, st, t.X)
		if err != nil {
			return err
		}
		fr.regs[t] = Val{T: t.Type(), S: xv.S}
		return nil
	case *ssa.ChangeType:
		xv, err := x.val(fr, st, t.X)
		if err != nil {
			return err
		}
		xv.T = t.Type()
		fr.regs[t] = xv
		return nil
	case *ssa.Convert:
		xv, err := x.val(fr, st, t.X)
		if err != nil {
			return err
		}
		r, err := x.convert(st, xv, t.X.Type(), t.Type())
		if err != nil {
			return engineErr("%s: %v", x.fnShort(fr.fn), err)
		}
		fr.regs[t] = r
		return nil
	case *ssa.TypeAssert:
		return x.typeAssert(fr, st, t)
	case *ssa.Extract:
		tv, err := x.val(fr, st, t.Tuple)
		if err != nil {
			return err
		}
		tt := t.Tuple.Type().(*types.Tuple)
		if nx, ok := t.Tuple.(*ssa.Next); ok {
			// the tuple type of a range step has "invalid type" for components the loop does not use; the value
			// always carries (ok, key, value): use the real component types
			var real []*types.Var
			real = append(real, types.NewVar(0, nil, "ok", types.Typ[types.Bool]))
			if nx.IsString {
				real = append(real, types.NewVar(0, nil, "k", types.Typ[types.Int]), types.NewVar(0, nil, "v", types.Typ[types.Rune]))
			} else if mt, ok := nx.Iter.(*ssa.Range).X.Type().Underlying().(*types.Map); ok {
				real = append(real, types.NewVar(0, nil, "k", mt.Key()), types.NewVar(0, nil, "v", mt.Elem()))
			}
			if len(real) == tt.Len() {
				tt = types.NewTuple(real...)
			}
		}
		lo := 0
		for i := 0; i < t.Index; i++ {
			lo += len(u.Layout(tt.At(i).Type()))
		}
		et := tt.At(t.Index).Type()
		n := len(u.Layout(et))
		fr.regs[t] = Val{T: et, S: tv.S[lo : lo+n]}
		return nil
	case *ssa.MapUpdate:
		mv, err := x.val(fr, st, t.Map)
		if err != nil {
			return err
		}
		kv, err := x.val(fr, st, t.Key)
		if err != nil {
			return err
		}
		vv, err := x.val(fr, st, t.Value)
		if err != nil {
			return err
		}
		mt := t.Map.Type().Underlying().(*types.Map)
		x.oblig("nil", t.Pos(), "assignment to entry in nil map", st.PC, Neq(mv.One(), IntLit(0)))
		return x.mapStore(st, mt, mv.One(), kv, vv)
	case *ssa.Range:
		return x.rangeInit(fr, st, t)
	case *ssa.Next:
		return x.rangeNext(fr, st, t)
	case *ssa.Defer:
		return x.deferInstr(fr, st, t)
	case *ssa.RunDefers:
		return x.runDefers(fr, st)
	case *ssa.Go:
		u.Trust("go statement: the spawned goroutine is not executed at the spawn site; its body is a separate unit")
		if c, ok := st.Ghost["go.count"]; ok {
			st.Ghost["go.count"] = u.Define("ngo", Add(c, IntLit(1)))
		}
		return nil
	case *ssa.Send:
		// ghost log of a channel: number of sends and the last value sent (interface- or pointer-typed elements)
		cv, err := x.val(fr, st, t.Chan)
		if err != nil {
			return err
		}
		xv, err := x.val(fr, st, t.X)
		if err != nil {
			return err
		}
		u.Trust("channel send: appends to the channel's ghost log (chansent / chanlast); no other effect on the sequential state")
		if g, ok, err := x.recvInvariant(fr, st, t.Chan, xv); err != nil {
			return err
		} else if ok {
			x.u.AddObligation(x.topName, "send-inv", t.Pos(), x.labels, "value sent satisfies the channel invariant", st.PC, g)
		}
		if cv.P == nil && len(cv.S) == 1 {
			x.logSend(st, True, cv.S[0], xv)
		}
		return nil
	case *ssa.Select:
		return x.selectInstr(fr, st, t)
	case *ssa.Call:
		r, err := x.call(fr, st, t.Common(), t, t.Pos())
		if err != nil {
			return err
		}
		fr.regs[t] = r
		return nil
	}
	return engineErr("%s: unsupported instruction %T: %s", x.fnShort(fr.fn), ins, ins)
}

// logSend appends to the ghost log of channel ch under condition c: one more value sent, and (for interface-typed
// and single-slot element types) the value itself as the last one sent.
func (x *Exec) logSend(st *State, c Term, ch Term, xv Val) {
	u := x.u
	upd := func(name string, so Sort, v Term) {
		arr := u.comp(st, name, ArrSort(SInt, so))
		u.setComp(st, name, Store(arr, ch, Ite(c, v, Select(arr, ch))))
	}
	sent := u.comp(st, "GF$chan$sent", ArrSort(SInt, SInt))
	upd("GF$chan$sent", SInt, Add(Select(sent, ch), IntLit(1)))
	if xv.P != nil || xv.F != nil {
		return
	}
	if len(xv.S) == 2 && classify(xv.T) == KIface {
		upd("GF$chan$last%tag", SInt, xv.S[0])
		upd("GF$chan$last%val", SInt, xv.S[1])
	} else if len(xv.S) == 1 {
		upd("GF$chan$last1%"+string(xv.S[0].So), xv.S[0].So, xv.S[0])
	}
}

func (x *Exec) toInt(v Val) Term {
	// index operands may have any integer type; widen to int
	ii, ok := intInfoOf(v.T)
	if !ok {
		return v.One()
	}
	return x.u.Convert(v.One(), ii, intInfo{64, true})
}

func (x *Exec) strLen(s Term) Term  { return App("slen", x.u.IntSort(), s) }
func (x *Exec) strByte(s, i Term) Term {
	return App("sbyte", x.u.sortOfInt(intInfo{8, false}), s, i)
}

func (x *Exec) load(st *State, pv Val, pos token.Pos) (Val, error) {
	u := x.u
	pt := types.Unalias(pv.T).Underlying().(*types.Pointer)
	if pv.P != nil {
		nn := pv.P.NonNil()
		x.oblig("nil", pos, "nil pointer load", st.PC, nn)
		return x.loaded(st, u.LoadPtr(st, pv.P, pt.Elem()), "ld"), nil
	}
	ref := pv.One()
	x.oblig("nil", pos, "nil pointer load", st.PC, Neq(ref, IntLit(0)))
	switch classify(pt.Elem()) {
	case KStruct:
		return x.loaded(st, u.LoadStruct(st, ref, pt.Elem()), "ld"), nil
	case KOpaque:
		return Val{T: pt.Elem()}, nil
	}
	v := u.LoadAddr(st, Addr{Kind: ACell, T: pt.Elem(), Ref: ref})
	return x.loaded(st, v, "ld"), nil
}

// named gives loaded scalar slots a name and their range facts.
func (x *Exec) named(v Val, prefix string) Val {
	if v.P != nil || v.F != nil {
		return v
	}
	ls := x.u.Layout(v.T)
	out := Val{T: v.T, S: make([]Term, len(v.S))}
	for i, s := range v.S {
		if x.quantDepth > 0 {
			out.S[i] = s
			continue
		}
		d := x.u.Define(prefix+ls[i].Suffix, s)
		if d.S != s.S {
			x.u.assumeSlot(d, ls[i])
		}
		out.S[i] = d
	}
	if x.quantDepth == 0 {
		x.u.assumeWellFormed(out)
	}
	return out
}

// loaded names a value read from the heap by the code and states the typing facts of that value
// (ranges, slice well-formedness, "identities stored in the heap exist").
func (x *Exec) loaded(st *State, v Val, prefix string) Val {
	out := x.named(v, prefix)
	if x.quantDepth == 0 {
		x.u.assumeValExisting(st, out)
	}
	return out
}

func (x *Exec) store(st *State, av Val, v Val, pos token.Pos) error {
	u := x.u
	if v.F != nil && len(v.S) == 0 && (av.P == nil || (len(av.P.Alts) > 0 && av.P.Alts[0].A.Kind != ALocal)) {
		// a closure stored into the heap (a struct field): it becomes an opaque non-nil function value; calls
		// through it go by the contract of the field / function type, not by the closure's body
		id := u.Fresh("closure", SInt)
		u.Assume(Neq(id, IntLit(0)))
		u.Trust("a closure stored in a struct field is an opaque function value from then on (calls through the field use the field's / the function type's contract)")
		v = Val{T: v.T, S: []Term{id}}
	}
	if av.P != nil {
		x.oblig("nil", pos, "nil pointer store", st.PC, av.P.NonNil())
		u.StorePtr(st, av.P, v)
		return nil
	}
	pt := types.Unalias(av.T).Underlying().(*types.Pointer)
	ref := av.One()
	x.oblig("nil", pos, "nil pointer store", st.PC, Neq(ref, IntLit(0)))
	switch classify(pt.Elem()) {
	case KStruct:
		u.StoreStruct(st, True, ref, pt.Elem(), v)
		return nil
	case KOpaque:
		return nil
	}
	if v.P != nil || v.F != nil {
		return engineErr("%s: engine-level pointer/closure stored into the heap", x.topName)
	}
	u.StoreAddr(st, True, Addr{Kind: ACell, T: pt.Elem(), Ref: ref}, v)
	return nil
}

func (x *Exec) binop(st *State, op token.Token, a, b Val, rt types.Type, pos token.Pos) (Val, error) {
	u := x.u
	k := classify(a.T)
	if op == token.SHL || op == token.SHR {
		k = KInt
	}
	switch k {
	case KBool:
		switch op {
		case token.EQL:
			return scalar(rt, Eq(a.One(), b.One())), nil
		case token.NEQ:
			return scalar(rt, Neq(a.One(), b.One())), nil
		case token.AND, token.LAND:
			return scalar(rt, And(a.One(), b.One())), nil
		case token.OR, token.LOR:
			return scalar(rt, Or(a.One(), b.One())), nil
		}
	case KInt:
		ii, _ := intInfoOf(a.T)
		switch op {
		case token.EQL, token.NEQ, token.LSS, token.LEQ, token.GTR, token.GEQ:
			return scalar(rt, u.Cmp(op, a.One(), b.One(), ii)), nil
		}
		bi, _ := intInfoOf(b.T)
		if op == token.QUO || op == token.REM {
			x.oblig("div", pos, "division by zero", st.PC, Neq(b.One(), u.IntConst(bigZero, ii)))
		}
		r, err := u.BinArith(op, a.One(), b.One(), ii, bi)
		if err != nil {
			return Val{}, err
		}
		if !r.NoOvf.IsTrue() {
			x.oblig("overflow", pos, fmt.Sprintf("%s does not overflow %s", op, a.T), st.PC, r.NoOvf)
		}
		return scalar(rt, r.T), nil
	case KString:
		switch op {
		case token.EQL:
			return scalar(rt, Eq(a.One(), b.One())), nil
		case token.NEQ:
			return scalar(rt, Neq(a.One(), b.One())), nil
		case token.ADD:
			return scalar(rt, App("scat", SStr, a.One(), b.One())), nil
		case token.LSS, token.LEQ, token.GTR, token.GEQ:
			u.DeclareFun("sless", []Sort{SStr, SStr}, SBool)
			lt := func(p, q Term) Term { return App("sless", SBool, p, q) }
			switch op {
			case token.LSS:
				return scalar(rt, lt(a.One(), b.One())), nil
			case token.GTR:
				return scalar(rt, lt(b.One(), a.One())), nil
			case token.LEQ:
				return scalar(rt, Not(lt(b.One(), a.One()))), nil
			default:
				return scalar(rt, Not(lt(a.One(), b.One()))), nil
			}
		}
	case KPtrStruct, KPtrCell, KMap, KChan, KUnsafe:
		ta, tb := a, b
		if ta.P != nil || tb.P != nil {
			// comparison of engine-level pointers: only against nil
			var p *PtrVal
			var other Val
			if ta.P != nil {
				p, other = ta.P, tb
			} else {
				p, other = tb.P, ta
			}
			if other.P == nil && len(other.S) == 1 && other.S[0].S == "0" {
				nn := p.NonNil()
				if op == token.EQL {
					return scalar(rt, Not(nn)), nil
				}
				return scalar(rt, nn), nil
			}
			return Val{}, fmt.Errorf("comparison of engine-level pointers")
		}
		if op == token.EQL {
			return scalar(rt, Eq(a.One(), b.One())), nil
		}
		return scalar(rt, Neq(a.One(), b.One())), nil
	case KFunc:
		// only comparison with nil is legal in Go
		var f Val
		if a.F != nil || (len(a.S) == 1 && a.S[0].S != "0") {
			f = a
		} else {
			f = b
		}
		var isNil Term
		if f.F != nil {
			isNil = False
		} else {
			isNil = Eq(f.One(), IntLit(0))
		}
		if op == token.EQL {
			return scalar(rt, isNil), nil
		}
		return scalar(rt, Not(isNil)), nil
	case KIface:
		eq := And(Eq(a.S[0], b.S[0]), Eq(a.S[1], b.S[1]))
		if op == token.EQL {
			return scalar(rt, eq), nil
		}
		return scalar(rt, Not(eq)), nil
	case KSlice:
		// only == nil
		var s Val
		if len(a.S) == 4 {
			s = a
		} else {
			s = b
		}
		isNil := Eq(s.S[0], IntLit(0))
		if op == token.EQL {
			return scalar(rt, isNil), nil
		}
		return scalar(rt, Not(isNil)), nil
	case KScalarNamed, KStruct, KArray:
		if len(a.S) != len(b.S) {
			return Val{}, fmt.Errorf("struct comparison: slot mismatch")
		}
		var eqs []Term
		for i := range a.S {
			eqs = append(eqs, Eq(a.S[i], b.S[i]))
		}
		if op == token.EQL {
			return scalar(rt, And(eqs...)), nil
		}
		return scalar(rt, Not(And(eqs...))), nil
	case KFloat:
		var n string
		switch op {
		case token.ADD:
			n = "+"
		case token.SUB:
			n = "-"
		case token.MUL:
			n = "*"
		case token.QUO:
			n = "/"
		case token.LSS:
			return scalar(rt, Lt(a.One(), b.One())), nil
		case token.LEQ:
			return scalar(rt, Le(a.One(), b.One())), nil
		case token.GTR:
			return scalar(rt, Gt(a.One(), b.One())), nil
		case token.GEQ:
			return scalar(rt, Ge(a.One(), b.One())), nil
		case token.EQL:
			return scalar(rt, Eq(a.One(), b.One())), nil
		case token.NEQ:
			return scalar(rt, Neq(a.One(), b.One())), nil
		}
		if n != "" {
			x.u.Trust("floating point arithmetic treated as exact real arithmetic")
			return scalar(rt, App(n, SReal, a.One(), b.One())), nil
		}
	}
	return Val{}, fmt.Errorf("binary operator %s on %s unsupported", op, a.T)
}

// bvStringFuns declares the string <-> bytes bridge of bit-vector mode: sbytes(s) is the byte array of s,
// mkstr(a, o, n) the string made of a[o .. o+n); converting a string to bytes and back gives the same string.
func (x *Exec) bvStringFuns(bs Sort) {
	u := x.u
	u.DeclareFun("sbytes", []Sort{SStr}, ArrSort(u.IntSort(), bs))
	u.DeclareFun("mkstr", []Sort{ArrSort(u.IntSort(), bs), u.IntSort(), u.IntSort()}, SStr)
	u.emitOnce("(assert (forall ((s Str)) (! (= (mkstr (sbytes s) #x0000000000000000 (slen s)) s) :pattern ((sbytes s)))))")
}

func (x *Exec) convert(st *State, v Val, from, to types.Type) (Val, error) {
	u := x.u
	fk, tk := classify(from), classify(to)
	switch {
	case fk == KInt && tk == KInt:
		fi, _ := intInfoOf(from)
		ti, _ := intInfoOf(to)
		return scalar(to, u.Define("conv", u.Convert(v.One(), fi, ti))), nil
	case fk == KString && tk == KSlice:
		// []byte(s): fresh slice whose bytes are the string's
		ln := x.strLen(v.One())
		et := to.Underlying().(*types.Slice).Elem()
		sl := x.newSlice(st, et, ln, ln, false)
		// element array equals the string's bytes: E[ptr] = bytesOf(s)
		bs := x.u.sortOfInt(intInfo{8, false})
		if u.Mode == ModeBV {
			x.bvStringFuns(bs)
		}
		if u.Mode == ModeInt {
			u.emitOnce("(assert (forall ((s Str) (i Int)) (! (= (select (sbytes s) i) (sbyte s i)) :pattern ((select (sbytes s) i)))))")
		} else {
			u.emitOnce("(assert (forall ((s Str) (i (_ BitVec 64))) (! (= (select (sbytes s) i) (sbyte s i)) :pattern ((select (sbytes s) i)))))")
		}
		name := elemComp(et, "")
		old := u.comp(st, name, ArrSort(SInt, ArrSort(u.IntSort(), bs)))
		u.setComp(st, name, Store(old, sl.S[0], App("sbytes", ArrSort(u.IntSort(), bs), v.One())))
		return sl, nil
	case fk == KSlice && tk == KString:
		// string(b): a string determined by the bytes b[0:len]
		bs := x.u.sortOfInt(intInfo{8, false})
		et := from.Underlying().(*types.Slice).Elem()
		if u.Mode == ModeBV {
			x.bvStringFuns(bs)
		}
		if u.Mode == ModeInt {
			u.emitOnce("(assert (forall ((a (Array Int Int)) (o Int) (n Int)) (! (=> (>= n 0) (= (slen (mkstr a o n)) n)) :pattern ((mkstr a o n)))))")
			u.emitOnce("(assert (forall ((a (Array Int Int)) (o Int) (n Int) (i Int)) (! (=> (and (<= 0 i) (< i n)) (= (sbyte (mkstr a o n) i) (select a (+ o i)))) :pattern ((sbyte (mkstr a o n) i)))))")
		}
		arr := Select(u.comp(st, elemComp(et, ""), ArrSort(SInt, ArrSort(u.IntSort(), bs))), v.S[0])
		if x.quantDepth > 0 {
			return scalar(to, App("mkstr", SStr, arr, v.S[1], v.S[2])), nil
		}
		return scalar(to, u.Define("str", App("mkstr", SStr, arr, v.S[1], v.S[2]))), nil
	case fk == KInt && tk == KString:
		u.DeclareFun("runestr", []Sort{u.IntSort()}, SStr)
		fi, _ := intInfoOf(from)
		return scalar(to, App("runestr", SStr, u.Convert(v.One(), fi, intInfo{64, true}))), nil
	case fk == KInt && tk == KFloat:
		if u.Mode == ModeBV {
			return Val{}, fmt.Errorf("int->float conversion in bv mode")
		}
		return scalar(to, App("to_real", SReal, v.One())), nil
	case fk == KFloat && tk == KFloat:
		return scalar(to, v.One()), nil
	case fk == KFloat && tk == KInt:
		u.Trust("float->int conversion treated as truncation of an exact real (then wrapped to the target width)")
		r := v.One()
		ti, _ := intInfoOf(to)
		var tr Term
		const pre, suf = "(/ (to_real ", ") 1000000000.0)"
		if len(r.S) > len(pre)+len(suf) && r.S[:len(pre)] == pre && r.S[len(r.S)-len(suf):] == suf {
			// Duration.Seconds() converted back to an integer: stay in integer arithmetic
			xi := Term{r.S[len(pre) : len(r.S)-len(suf)], SInt}
			k := IntLit(1000000000)
			tr = Ite(Ge(xi, IntLit(0)), App("div", SInt, xi, k), App("-", SInt, App("div", SInt, App("-", SInt, xi), k)))
		} else {
			fl := App("to_int", SInt, r)
			tr = Ite(Ge(r, Term{"0.0", SReal}), fl, App("-", SInt, App("to_int", SInt, App("-", SReal, r))))
		}
		return scalar(to, u.Define("f2i", u.wrap(tr, ti))), nil
	case fk == tk && (fk == KPtrStruct || fk == KPtrCell || fk == KUnsafe):
		v.T = to
		return v, nil
	}
	return Val{}, fmt.Errorf("conversion %s -> %s unsupported", from, to)
}

func (u *Unit) emitOnce(s string) {
	if _, ok := u.declared["!"+s]; ok {
		return
	}
	u.declared["!"+s] = SBool
	u.emit(s)
}

// newSlice allocates a backing array.
func (x *Exec) newSlice(st *State, et types.Type, ln, cp Term, zero bool) Val {
	u := x.u
	ref := u.NewRef(st, "slice")
	if zero {
		for _, sl := range u.Layout(et) {
			name := elemComp(et, sl.Suffix)
			so := ArrSort(SInt, ArrSort(u.IntSort(), sl.So))
			old := u.comp(st, name, so)
			z := Term{fmt.Sprintf("((as const %s) %s)", ArrSort(u.IntSort(), sl.So), u.ZeroSlot(sl).S), ArrSort(u.IntSort(), sl.So)}
			u.setComp(st, name, Store(old, ref, z))
		}
	}
	return Val{T: types.NewSlice(et), S: []Term{ref, u.IntC(0), ln, cp}}
}

func (x *Exec) newMap(st *State, mt *types.Map) Term {
	u := x.u
	ref := u.NewRef(st, "map")
	ks := u.keySort(mt.Key())
	dn := mapDomComp(mt.Key(), mt.Elem())
	dom := u.comp(st, dn, ArrSort(SInt, ArrSort(ks, SBool)))
	u.setComp(st, dn, Store(dom, ref, Term{fmt.Sprintf("((as const %s) false)", ArrSort(ks, SBool)), ArrSort(ks, SBool)}))
	cn := mapCardComp(mt.Key(), mt.Elem())
	card := u.comp(st, cn, ArrSort(SInt, SInt))
	u.setComp(st, cn, Store(card, ref, IntLit(0)))
	return ref
}

func (u *Unit) keySort(k types.Type) Sort {
	ls := u.Layout(k)
	if len(ls) != 1 {
		panic(fmt.Sprintf("map key type %s is not scalar", k))
	}
	return ls[0].So
}

func (x *Exec) mapStore(st *State, mt *types.Map, m Term, k, v Val) error {
	u := x.u
	ks := u.keySort(mt.Key())
	dn := mapDomComp(mt.Key(), mt.Elem())
	domAll := u.comp(st, dn, ArrSort(SInt, ArrSort(ks, SBool)))
	dom := Select(domAll, m)
	had := Select(dom, k.One())
	cn := mapCardComp(mt.Key(), mt.Elem())
	cardAll := u.comp(st, cn, ArrSort(SInt, SInt))
	u.setComp(st, cn, Store(cardAll, m, Ite(had, Select(cardAll, m), Add(Select(cardAll, m), IntLit(1)))))
	u.setComp(st, dn, Store(domAll, m, Store(dom, k.One(), True)))
	if v.P != nil || v.F != nil {
		return engineErr("engine-level value stored into a map")
	}
	for i, sl := range u.Layout(mt.Elem()) {
		vn := mapValComp(mt.Key(), mt.Elem(), sl.Suffix)
		all := u.comp(st, vn, ArrSort(SInt, ArrSort(ks, sl.So)))
		u.setComp(st, vn, Store(all, m, Store(Select(all, m), k.One(), v.S[i])))
	}
	return nil
}

func (x *Exec) mapDelete(st *State, mt *types.Map, m Term, k Val) {
	u := x.u
	ks := u.keySort(mt.Key())
	dn := mapDomComp(mt.Key(), mt.Elem())
	domAll := u.comp(st, dn, ArrSort(SInt, ArrSort(ks, SBool)))
	dom := Select(domAll, m)
	had := Select(dom, k.One())
	cn := mapCardComp(mt.Key(), mt.Elem())
	cardAll := u.comp(st, cn, ArrSort(SInt, SInt))
	// delete on a nil map is a no-op
	nn := Neq(m, IntLit(0))
	u.setComp(st, cn, Ite(nn, Store(cardAll, m, Ite(had, Sub(Select(cardAll, m), IntLit(1)), Select(cardAll, m))), cardAll))
	u.setComp(st, dn, Ite(nn, Store(domAll, m, Store(dom, k.One(), False)), domAll))
}

// mapRead returns (value, ok) of m[k]; absent keys yield the zero value.
func (x *Exec) mapRead(st *State, mt *types.Map, m Term, k Term) (Val, Term) {
	u := x.u
	ks := u.keySort(mt.Key())
	dom := Select(Select(u.comp(st, mapDomComp(mt.Key(), mt.Elem()), ArrSort(SInt, ArrSort(ks, SBool))), m), k)
	ok := And(Neq(m, IntLit(0)), dom)
	ls := u.Layout(mt.Elem())
	v := Val{T: mt.Elem(), S: make([]Term, len(ls))}
	for i, sl := range ls {
		all := u.comp(st, mapValComp(mt.Key(), mt.Elem(), sl.Suffix), ArrSort(SInt, ArrSort(ks, sl.So)))
		v.S[i] = Ite(ok, Select(Select(all, m), k), u.ZeroSlot(sl))
	}
	return v, ok
}

func (x *Exec) mapCard(st *State, mt *types.Map, m Term) Term {
	u := x.u
	c := Select(u.comp(st, mapCardComp(mt.Key(), mt.Elem()), ArrSort(SInt, SInt)), m)
	return Ite(Eq(m, IntLit(0)), IntLit(0), c)
}

func (x *Exec) lookup(fr *Frame, st *State, t *ssa.Lookup) error {
	u := x.u
	xv, err := x.val(fr, st, t.X)
	if err != nil {
		return err
	}
	iv, err := x.val(fr, st, t.Index)
	if err != nil {
		return err
	}
	if classify(t.X.Type()) == KString {
		idx := x.toInt(iv)
		x.oblig("index", t.Pos(), "string index in range", st.PC, And(u.ILe(u.IntC(0), idx), u.ILt(idx, x.strLen(xv.One()))))
		fr.regs[t] = scalar(t.Type(), x.strByte(xv.One(), idx))
		return nil
	}
	mt := t.X.Type().Underlying().(*types.Map)
	v, ok := x.mapRead(st, mt, xv.One(), iv.One())
	v = x.named(v, "mapval")
	x.u.assumeValExisting(st, v)
	x.assumeMapFacts(st, mt, xv.One())
	if t.CommaOk {
		fr.regs[t] = Val{T: t.Type(), S: append(append([]Term(nil), v.S...), u.Define("mapok", ok))}
	} else {
		fr.regs[t] = v
	}
	return nil
}

// assumeMapFacts: card >= 0.
func (x *Exec) assumeMapFacts(st *State, mt *types.Map, m Term) {
	u := x.u
	c := Select(u.comp(st, mapCardComp(mt.Key(), mt.Elem()), ArrSort(SInt, SInt)), m)
	u.Assume(Ge(c, IntLit(0)))
	// the nil map is empty
	u.Assume(Implies(Eq(m, IntLit(0)), Eq(c, IntLit(0))))
	// cardinality and domain agree at the two ends: an empty map has no key, a non-empty one has some key
	ks := u.keySort(mt.Key())
	dom := Select(u.comp(st, mapDomComp(mt.Key(), mt.Elem()), ArrSort(SInt, ArrSort(ks, SBool))), m)
	u.Assume(Implies(Eq(c, IntLit(0)), Term{fmt.Sprintf("(forall ((qk %s)) (! (not (select %s qk)) :pattern ((select %s qk))))", ks, dom.S, dom.S), SBool}))
	w := u.Fresh("mapwit", ks)
	u.Assume(Implies(Gt(c, IntLit(0)), Select(dom, w)))
	u.Trust("maps are finite: len(m) == 0 iff m has no key")
}

func (x *Exec) slice(fr *Frame, st *State, t *ssa.Slice) error {
	u := x.u
	xv, err := x.val(fr, st, t.X)
	if err != nil {
		return err
	}
	get := func(v ssa.Value) (Term, bool, error) {
		if v == nil {
			return Term{}, false, nil
		}
		iv, err := x.val(fr, st, v)
		if err != nil {
			return Term{}, false, err
		}
		return x.toInt(iv), true, nil
	}
	lo, hasLo, err := get(t.Low)
	if err != nil {
		return err
	}
	hi, hasHi, err := get(t.High)
	if err != nil {
		return err
	}
	mx, hasMax, err := get(t.Max)
	if err != nil {
		return err
	}
	if !hasLo {
		lo = u.IntC(0)
	}
	switch classify(t.X.Type()) {
	case KString:
		ln := x.strLen(xv.One())
		if !hasHi {
			hi = ln
		}
		x.oblig("slice", t.Pos(), "string slice bounds", st.PC, And(u.ILe(u.IntC(0), lo), u.ILe(lo, hi), u.ILe(hi, ln)))
		r := u.Define("ssub", App("ssub", SStr, xv.One(), lo, hi))
		x.ssubAxioms()
		fr.regs[t] = scalar(t.Type(), r)
		return nil
	case KSlice:
		ptr, off, ln, cp := xv.S[0], xv.S[1], xv.S[2], xv.S[3]
		if !hasHi {
			hi = ln
		}
		if !hasMax {
			mx = cp
		}
		x.oblig("slice", t.Pos(), "slice bounds", st.PC, And(u.ILe(u.IntC(0), lo), u.ILe(lo, hi), u.ILe(hi, mx), u.ILe(mx, cp)))
		noff := u.Define("off", u.IAdd(off, lo))
		nln := u.Define("len", u.ISub(hi, lo))
		ncp := u.Define("cap", u.ISub(mx, lo))
		fr.regs[t] = Val{T: t.Type(), S: []Term{ptr, noff, nln, ncp}}
		return nil
	case KPtrCell, KPtrStruct:
		pt := t.X.Type().Underlying().(*types.Pointer)
		at, ok := pt.Elem().Underlying().(*types.Array)
		if !ok || xv.P != nil {
			return engineErr("%s: slicing a pointer to array is unsupported here", x.fnShort(fr.fn))
		}
		n := u.IntC(at.Len())
		if !hasHi {
			hi = n
		}
		if !hasMax {
			mx = n
		}
		x.oblig("slice", t.Pos(), "array slice bounds", st.PC, And(u.ILe(u.IntC(0), lo), u.ILe(lo, hi), u.ILe(hi, mx), u.ILe(mx, n)))
		fr.regs[t] = Val{T: t.Type(), S: []Term{xv.One(), lo, u.Define("len", u.ISub(hi, lo)), u.Define("cap", u.ISub(mx, lo))}}
		return nil
	}
	return engineErr("slice of %s", t.X.Type())
}

func (x *Exec) ssubAxioms() {
	u := x.u
	if u.Mode == ModeInt {
		u.emitOnce("(assert (forall ((s Str) (a Int) (b Int)) (! (=> (and (<= 0 a) (<= a b) (<= b (slen s))) (= (slen (ssub s a b)) (- b a))) :pattern ((ssub s a b)))))")
		u.emitOnce("(assert (forall ((s Str) (a Int) (b Int) (i Int)) (! (=> (and (<= 0 i) (< i (- b a))) (= (sbyte (ssub s a b) i) (sbyte s (+ a i)))) :pattern ((sbyte (ssub s a b) i)))))")
	}
}

func (x *Exec) makeIface(st *State, v Val, from, to types.Type) (Val, error) {
	u := x.u
	tag := u.TypeID(from)
	var payload Term
	switch classify(from) {
	case KPtrStruct, KMap, KChan, KUnsafe:
		if v.P != nil {
			return Val{}, engineErr("%s: address of a local converted to an interface", x.topName)
		}
		payload = v.One()
	case KPtrCell:
		if v.P != nil {
			// the address of a field or element handed to a callee as an interface{} (redis.Scan(&s.f, …)): an opaque
			// identity; what the callee writes through it is covered by the callee's frame (its contract's modifies
			// clause, or the whole heap for a callee without contract) — the pointed-to object lives in the heap
			payload = u.Fresh("box", SInt)
			u.Assume(Eq(App("root", SInt, payload), IntLit(0)))
			u.Trust("address of a field boxed into an interface: the payload is opaque; writes through it are those the callee's frame allows")
			break
		}
		payload = v.One()
	case KInt:
		if u.Mode == ModeBV {
			ii, _ := intInfoOf(from)
			if ii.signed {
				payload = App("sbv_to_int_stub", SInt, v.One())
				return Val{}, engineErr("%s: integer boxed into an interface in bv mode", x.topName)
			}
			payload = App("box.Int", SInt, App("bv2nat", SInt, v.One()))
		} else {
			payload = App("box.Int", SInt, v.One())
		}
	case KBool:
		payload = App("box.Int", SInt, Ite(v.One(), IntLit(1), IntLit(0)))
	case KString:
		payload = App("box.Str", SInt, v.One())
	case KScalarNamed:
		payload = App("box.Int", SInt, v.One())
	case KSlice:
		// a boxed slice: a fresh identity whose header (pointer, offset, length, capacity) can be read back
		payload = u.Fresh("box", SInt)
		u.Assume(Eq(App("root", SInt, payload), IntLit(0)))
		for i, c := range v.S {
			fn := fmt.Sprintf("unbox.sl%d.%s", i, sortTag(c.So))
			u.DeclareFun(fn, []Sort{SInt}, c.So)
			u.Assume(Eq(App(fn, c.So, payload), c))
		}
	case KStruct, KFunc, KArray, KFloat:
		// boxed composite: an opaque fresh identity (contents not recoverable)
		payload = u.Fresh("box", SInt)
		u.Assume(Eq(App("root", SInt, payload), IntLit(0)))
		u.Trust("composite value boxed into an interface: payload is opaque")
	default:
		return Val{}, engineErr("MakeInterface from %s unsupported", from)
	}
	return Val{T: to, S: []Term{tag, payload}}, nil
}

func (x *Exec) unbox(st *State, iface Val, to types.Type) (Val, error) {
	u := x.u
	p := iface.S[1]
	switch classify(to) {
	case KPtrStruct, KPtrCell, KMap, KChan, KUnsafe:
		return scalar(to, p), nil
	case KScalarNamed:
		return scalar(to, App("unbox.Int", SInt, p)), nil
	case KInt:
		if u.Mode == ModeBV {
			ii, _ := intInfoOf(to)
			return scalar(to, App(fmt.Sprintf("(_ int2bv %d)", ii.w), BVSort(ii.w), App("unbox.Int", SInt, p))), nil
		}
		return scalar(to, App("unbox.Int", SInt, p)), nil
	case KBool:
		return scalar(to, Eq(App("unbox.Int", SInt, p), IntLit(1))), nil
	case KString:
		return scalar(to, App("unbox.Str", SStr, p)), nil
	case KSlice:
		v := u.FreshVal("unboxed", to)
		for i, c := range v.S {
			fn := fmt.Sprintf("unbox.sl%d.%s", i, sortTag(c.So))
			u.DeclareFun(fn, []Sort{SInt}, c.So)
			v.S[i] = App(fn, c.So, p)
		}
		return v, nil
	case KStruct, KFunc, KArray, KFloat:
		v := u.FreshVal("unboxed", to)
		return v, nil
	}
	return Val{}, engineErr("type assertion to %s unsupported", to)
}

func (x *Exec) typeAssert(fr *Frame, st *State, t *ssa.TypeAssert) error {
	u := x.u
	xv, err := x.val(fr, st, t.X)
	if err != nil {
		return err
	}
	var ok Term
	var res Val
	if types.IsInterface(t.AssertedType) {
		// interface-to-interface
		if types.AssignableTo(t.X.Type(), t.AssertedType) {
			ok = Neq(xv.S[0], IntLit(0))
		} else {
			okc := u.Fresh("implements", SBool)
			ok = And(Neq(xv.S[0], IntLit(0)), okc)
			u.Trust("interface-to-interface assertion outcome is arbitrary for non-nil values")
		}
		res = Val{T: t.AssertedType, S: []Term{xv.S[0], xv.S[1]}}
	} else {
		ok = Eq(xv.S[0], u.TypeID(t.AssertedType))
		res, err = x.unbox(st, xv, t.AssertedType)
		if err != nil {
			return err
		}
		if k := classify(t.AssertedType); k == KPtrStruct || k == KPtrCell || k == KMap {
			u.AssumeExisting(st, res.One())
		}
	}
	okd := u.Define("typeok", ok)
	if t.CommaOk {
		// on failure the value is the zero value
		z := u.ZeroVal(t.AssertedType)
		rs := make([]Term, len(res.S))
		for i := range res.S {
			rs[i] = Ite(okd, res.S[i], z.S[i])
		}
		fr.regs[t] = Val{T: t.Type(), S: append(rs, okd)}
		return nil
	}
	x.oblig("assert-type", t.Pos(), fmt.Sprintf("type assertion to %s succeeds", types.TypeString(t.AssertedType, func(p *types.Package) string { return p.Name() })), st.PC, okd)
	fr.regs[t] = res
	return nil
}

// sortTag: a name fragment for a sort (used to keep the unboxing functions of differently sorted components apart).
func sortTag(so Sort) string {
	r := strings.NewReplacer("(", "", ")", "", " ", "_").Replace(string(so))
	return r
}
