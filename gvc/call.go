package main

import (
	"go/ast"
	"fmt"
	"go/token"
	"go/types"
	"strings"

	"golang.org/x/tools/go/ssa"
)

func (x *Exec) args(fr *Frame, st *State, c *ssa.CallCommon) ([]Val, error) {
	var out []Val
	for _, a := range c.Args {
		v, err := x.val(fr, st, a)
		if err != nil {
			return nil, err
		}
		out = append(out, v)
	}
	return out, nil
}

func resultType(sig *types.Signature) types.Type {
	switch sig.Results().Len() {
	case 0:
		return types.NewTuple()
	case 1:
		return sig.Results().At(0).Type()
	}
	return sig.Results()
}

// call executes a call instruction and returns its value (a tuple value for multi-results).
func (x *Exec) call(fr *Frame, st *State, c *ssa.CallCommon, site ssa.Instruction, pos token.Pos) (Val, error) {
	sig := c.Signature()
	rt := resultType(sig)
	x.curTrail = recvTrail(c)
	x.curSite = site
	if c.IsInvoke() {
		recv, err := x.val(fr, st, c.Value)
		if err != nil {
			return Val{}, err
		}
		args, err := x.args(fr, st, c)
		if err != nil {
			return Val{}, err
		}
		x.oblig("nil", pos, fmt.Sprintf("method %s called on nil interface", c.Method.Name()), st.PC, Neq(recv.S[0], IntLit(0)))
		key := c.Method.FullName()
		if err := x.callSite(fr, st, recvTypeName(c.Value.Type())+c.Method.Name(), nil, c.Method.Type().(*types.Signature), x.cs.Funcs[key], append([]Val{recv}, args...), pos); err != nil {
			return Val{}, err
		}
		if r, done, err := x.nativeInvoke(fr, st, key, c, recv, args, pos); done || err != nil {
			return r, err
		}
		if fc := x.cs.Funcs[key]; fc != nil {
			return x.callContract(fr, st, fc, nil, c.Method.Type().(*types.Signature), append([]Val{recv}, args...), rt, pos, c.Method.Name())
		}
		return x.opaqueCall(fr, st, key, rt, append([]Val{recv}, args...), pos)
	}
	if b, ok := c.Value.(*ssa.Builtin); ok {
		args, err := x.args(fr, st, c)
		if err != nil {
			return Val{}, err
		}
		return x.builtin(fr, st, b, c, args, rt, pos)
	}
	args, err := x.args(fr, st, c)
	if err != nil {
		return Val{}, err
	}
	if callee := c.StaticCallee(); callee != nil && callee.Parent() == nil {
		what := callee.Name()
		if r := callee.Signature.Recv(); r != nil {
			what = recvTypeName(r.Type()) + what
		}
		if err := x.callSite(fr, st, what, callee, callee.Signature, x.cs.Funcs[callee.String()], args, pos); err != nil {
			return Val{}, err
		}
	}
	if callee := c.StaticCallee(); callee != nil {
		// closure literal called directly: MakeClosure value carries bindings
		if mc, ok := c.Value.(*ssa.MakeClosure); ok {
			cv, err := x.val(fr, st, mc)
			if err != nil {
				return Val{}, err
			}
			return x.inline(fr, st, callee, args, cv.F.Bindings, rt, pos)
		}
		return x.callStatic(fr, st, callee, args, rt, pos)
	}
	// dynamic call through a function value
	fv, err := x.val(fr, st, c.Value)
	if err != nil {
		return Val{}, err
	}
	if fv.F != nil {
		if fv.F.Recv != nil {
			args = append([]Val{*fv.F.Recv}, args...)
		}
		if len(fv.F.Bindings) > 0 || fv.F.Fn.Parent() != nil {
			return x.inline(fr, st, fv.F.Fn, args, fv.F.Bindings, rt, pos)
		}
		return x.callStatic(fr, st, fv.F.Fn, args, rt, pos)
	}
	x.oblig("nil", pos, "call of nil function value", st.PC, Neq(fv.One(), IntLit(0)))
	// a function value loaded from a struct field that carries a contract ("func field (T).f")
	if ld, ok := c.Value.(*ssa.UnOp); ok {
		if fa, ok := ld.X.(*ssa.FieldAddr); ok {
			owner := fa.X.Type().Underlying().(*types.Pointer).Elem()
			fname := structOf(owner).Field(fa.Field).Name()
			if n, ok := types.Unalias(owner).(*types.Named); ok && n.Obj().Pkg() != nil {
				key := "field:(" + n.Obj().Pkg().Path() + "." + n.Obj().Name() + ")." + fname
				if fc := x.cs.Funcs[key]; fc != nil {
					ov, err := x.val(fr, st, fa.X)
					if err != nil {
						return Val{}, err
					}
					all := append([]Val{ov}, args...)
					if err := x.callSite(fr, st, n.Obj().Name()+"."+fname, nil, sig, fc, all, pos); err != nil {
						return Val{}, err
					}
					return x.callContract(fr, st, fc, nil, sig, all, rt, pos, fname)
				}
			}
		}
	}
	// a value of a named function type that carries a contract ("func type pkg.T")
	if n, ok := types.Unalias(c.Value.Type()).(*types.Named); ok && n.Obj().Pkg() != nil {
		key := "type:" + n.Obj().Pkg().Path() + "." + n.Obj().Name()
		if fc := x.cs.Funcs[key]; fc != nil {
			if len(fc.ParamNames) == len(args)+1 {
				// "params self, a, b": the first name denotes the function value that is called
				args = append([]Val{fv}, args...)
			}
			if err := x.callSite(fr, st, n.Obj().Name(), nil, sig, fc, args, pos); err != nil {
				return Val{}, err
			}
			return x.callContract(fr, st, fc, nil, sig, args, rt, pos, n.Obj().Name())
		}
	}
	return x.unknownFuncCall(fr, st, c, fv, args, rt, pos)
}

func (x *Exec) callStatic(fr *Frame, st *State, callee *ssa.Function, args []Val, rt types.Type, pos token.Pos) (Val, error) {
	key := callee.String()
	if r, done, err := x.native(fr, st, key, callee, args, rt, pos); done || err != nil {
		return r, err
	}
	if x.topFC != nil {
		for _, pat := range x.topFC.Abstract {
			// "call <substring> pure contract": the callee has a contract, but this caller only relies on the part of the
			// state the callee is known (by that contract) not to touch; its effect is left out here
			fs := strings.Fields(pat)
			if len(fs) == 4 && fs[0] == "call" && fs[2] == "pure" && fs[3] == "contract" && strings.Contains(key, fs[1]) {
				x.u.Trust(fmt.Sprintf("%s: abstracted call although the callee has a contract (its effect is assumed not to reach the state this function's clauses talk about): %s", x.topName, key))
				r := x.u.FreshVal("abs", rt)
				x.u.assumeValExisting(st, r)
				return r, nil
			}
		}
	}
	if fc := x.cs.Funcs[key]; fc != nil {
		if fc.Inline {
			return x.inline(fr, st, callee, args, nil, rt, pos)
		}
		return x.callContract(fr, st, fc, callee, callee.Signature, args, rt, pos, callee.Name())
	}
	if callee.Parent() != nil {
		return x.inline(fr, st, callee, args, nil, rt, pos)
	}
	if isLogging(callee) {
		x.u.Trust("logging calls (zap, log, fmt.Print*) have no effect on program state")
		return x.u.FreshVal("log", rt), nil
	}
	return x.opaqueCall(fr, st, key, rt, args, pos)
}

func isLogging(fn *ssa.Function) bool {
	if fn.Pkg == nil {
		// methods of instantiated / external types
		s := fn.String()
		return strings.Contains(s, "go.uber.org/zap")
	}
	p := fn.Pkg.Pkg.Path()
	switch {
	case strings.HasPrefix(p, "go.uber.org/zap"), p == "log":
		return true
	case p == "fmt" && (strings.HasPrefix(fn.Name(), "Print") || strings.HasPrefix(fn.Name(), "Fprint")):
		return true
	}
	return false
}

// recvTypeName: "Store." for queue.Store, "packetIDLimiter." for *packetIDLimiter.
func recvTypeName(t types.Type) string {
	t = types.Unalias(t)
	if p, ok := t.(*types.Pointer); ok {
		t = types.Unalias(p.Elem())
	}
	if n, ok := t.(*types.Named); ok {
		return n.Obj().Name() + "."
	}
	return ""
}

// callSite numbers the call ("Name#k"), checks the caller's call-site assertions for it
// ("call Name#k assert e": the caller's view of what it hands to the callee, evaluated just before the call with the
// callee's parameter names in scope) and records the snapshot at(Name#k, e) = e just before the call.
func (x *Exec) callSite(fr *Frame, st *State, what string, callee *ssa.Function, sig *types.Signature, fc *FuncContract, args []Val, pos token.Pos) error {
	x.calls[what]++
	tag := fmt.Sprintf("%s#%d", what, x.calls[what])
	if fr != nil && fr.top && x.curSite != nil {
		if t, ok := x.siteTags[x.curSite]; ok {
			tag = t
		}
	} else if fr != nil && !fr.top {
		tag = fr.fn.Name() + "." + tag
	}
	x.curTag = tag
	top := x.topFC
	if top == nil {
		return nil
	}
	x.callSeen[tag] = true
	if c, ok := st.Ghost["calls."+tag]; ok {
		st.Ghost["calls."+tag] = x.u.Define("ncalls", Add(c, IntLit(1)))
	}
	if x.atTagUsed(top, tag) {
		// at(Name#k, e): e in the state just before this call
		snap := st.Clone()
		snap.Snap = map[string]*State{}
		st.Snap[tag] = snap
	}
	cl := top.CallAssert[tag]
	if len(cl) == 0 && len(top.CallWitness[tag]) == 0 {
		return nil
	}
	var names []string
	if fc != nil {
		names = paramNames(fc, callee, sig)
	} else {
		names = paramNames(&FuncContract{}, callee, sig)
	}
	mkEnv := func() *Env {
		cenv := x.envFor(fr, st, fr.entry)
		if len(names) == len(args) {
			for i, n := range names {
				if _, err := cenv.ident(n); err != nil {
					cenv.names[n] = args[i]
				}
			}
		}
		// $arg0, $arg1, …: the arguments by position (receiver first), for callee parameter names that the
		// caller's own variables shadow
		for i := range args {
			cenv.names[fmt.Sprintf("$arg%d", i)] = args[i]
		}
		return cenv
	}
	for _, w := range top.CallWitness[tag] {
		v, err := mkEnv().Eval(w.E)
		if err != nil || len(v.S) != 1 {
			return engineErr("%s: call %s witness %s: %v", x.topName, tag, w.Name, err)
		}
		c := x.u.Declare("wit$"+w.Name, v.S[0].So)
		x.u.Assume(Eq(c, v.S[0]))
	}
	for ci, c := range cl {
		cenv := mkEnv()
		g, err := cenv.Bool(c.E)
		if err != nil {
			if x.staleClause(err) {
				x.staleObligation(fmt.Sprintf("assert@%s.c%d", tag, ci+1), pos, x.lab(c.Labels), c.Text, st.PC, err)
				continue
			}
			return engineErr("%s: call %s assert %q: %v", x.topName, tag, c.Text, err)
		}
		x.u.AddObligation(x.topName, fmt.Sprintf("assert@%s.c%d", tag, ci+1), pos, x.lab(c.Labels), c.Text, st.PC, g)
	}
	return nil
}

// atTagUsed: does any clause of the contract mention at(<tag>, ...)?
func (x *Exec) atTagUsed(fc *FuncContract, tag string) bool {
	if x.atTags == nil {
		x.atTags = map[string]bool{}
		scan := func(cs []*Clause) {
			for _, c := range cs {
				t := c.Text
				for {
					i := strings.Index(t, "at(")
					if i < 0 {
						break
					}
					t = t[i+3:]
					if j := strings.Index(t, ","); j > 0 {
						x.atTags[strings.TrimSpace(t[:j])] = true
					}
				}
			}
		}
		scan(fc.Requires)
		scan(fc.Ensures)
		for _, l := range fc.Loops {
			scan(l)
		}
		for _, l := range fc.CallAssert {
			scan(l)
		}
		for _, l := range fc.CallInv {
			scan(l)
		}
	}
	return x.atTags[tag]
}

// opaqueCall: nothing is known about the callee: it may change the whole heap.
func (x *Exec) opaqueCall(fr *Frame, st *State, key string, rt types.Type, args []Val, pos token.Pos) (Val, error) {
	u := x.u
	if x.topFC != nil {
		for _, pat := range x.topFC.Abstract {
			// "call <substring> [pure]"
			fs := strings.Fields(pat)
			if len(fs) >= 2 && fs[0] == "call" && strings.Contains(key, fs[1]) {
				pure := len(fs) >= 3 && fs[2] == "pure"
				if pure {
					u.Trust(fmt.Sprintf("abstracted call (assumed to leave the modelled state unchanged): %s", key))
					r := u.FreshVal("abs", rt)
					u.assumeValExisting(st, r)
					return r, nil
				}
			}
		}
	}
	u.Trust(fmt.Sprintf("opaque call (no contract; whole heap havocked at the call): %s", key))
	x.havocAllAtCall(fr, st, args)
	r := u.FreshVal("opaque", rt)
	return r, nil
}

// havocAllAtCall: a callee whose frame is "heap" may change everything it can reach — but not the caller's
// captured local variables (heap cells whose address only the caller's own closures hold), unless one of those
// closures is handed to the callee.
func (x *Exec) havocAllAtCall(fr *Frame, st *State, args []Val) {
	type saved struct {
		c frameCell
		v Val
	}
	var keep []saved
	passed := map[string]bool{}
	for _, a := range args {
		if a.F != nil {
			for _, b := range a.F.Bindings {
				if b.P == nil && len(b.S) == 1 {
					passed[b.S[0].S] = true
				}
			}
		}
		if a.P == nil && a.F == nil && len(a.S) == 1 {
			passed[a.S[0].S] = true
		}
	}
	for f := fr; f != nil; f = f.parent {
		for _, c := range f.cells {
			if passed[c.ref.S] || classify(c.t) == KStruct || classify(c.t) == KFunc {
				continue
			}
			keep = append(keep, saved{c, x.u.LoadAddr(st, Addr{Kind: ACell, T: c.t, Ref: c.ref})})
		}
	}
	x.havocAll(st)
	for _, k := range keep {
		if k.v.P != nil || k.v.F != nil {
			continue
		}
		x.u.StoreAddr(st, True, Addr{Kind: ACell, T: k.c.t, Ref: k.c.ref}, k.v)
	}
}

func (x *Exec) havocAll(st *State) {
	keep := map[string]Term{}
	for k, v := range st.Heap {
		if strings.HasPrefix(k, "GF$") {
			keep[k] = v
		}
	}
	st.Heap = keep
	ng := map[string]Term{}
	for k, v := range st.Ghost {
		// path counters (called(), spawned()) and loop variants belong to the verifier, not to the program state
		if strings.HasPrefix(k, "calls.") || k == "go.count" || strings.HasPrefix(k, "variant.") {
			ng[k] = v
		}
	}
	st.Ghost = ng
	st.Epoch = x.nextEpoch()
	st.Mix = nil
	na := x.u.Fresh("alloc", SInt)
	x.u.Assume(Ge(na, st.Alloc))
	st.Alloc = na
	x.u.epochAlloc[st.Epoch] = na
}

func (x *Exec) unknownFuncCall(fr *Frame, st *State, c *ssa.CallCommon, fv Val, args []Val, rt types.Type, pos token.Pos) (Val, error) {
	if ld, ok := c.Value.(*ssa.UnOp); ok && x.topFC != nil {
		if g, ok := ld.X.(*ssa.Global); ok {
			// a package-level function variable (e.g. a registration hook replaced in tests)
			key := "var " + g.Name()
			for _, pat := range x.topFC.Abstract {
				fs := strings.Fields(pat)
				if len(fs) >= 3 && fs[0] == "call" && fs[2] == "pure" && strings.Contains(key, fs[1]) {
					x.u.Trust(fmt.Sprintf("abstracted call (assumed to leave the modelled state unchanged): %s", key))
					r := x.u.FreshVal("abs", rt)
					x.u.assumeValExisting(st, r)
					return r, nil
				}
			}
		}
	}
	if x.topFC != nil {
		// a function-typed parameter called by the function under verification: "abstract call param.<name> pure"
		if ln := localFuncNameOf(c.Value); ln != "" {
			// a function value held in a local variable (e.g. looked up in a registry): "abstract call local.<name> pure"
			for _, pat := range x.topFC.Abstract {
				fs := strings.Fields(pat)
				if len(fs) >= 3 && fs[0] == "call" && fs[2] == "pure" && fs[1] == "local."+ln {
					x.u.Trust(fmt.Sprintf("%s: the function held in the local variable %q is assumed to leave the modelled state unchanged (abstract call … pure)", x.topName, ln))
					r := x.u.FreshVal("abs", rt)
					x.u.assumeValExisting(st, r)
					return r, nil
				}
			}
		}
		if pn := paramNameOf(c.Value); pn != "" {
			key := "param." + pn
			for _, pat := range x.topFC.Abstract {
				fs := strings.Fields(pat)
				if len(fs) >= 3 && fs[0] == "call" && fs[2] == "pure" && fs[1] == key {
					x.u.Trust(fmt.Sprintf("%s: the function passed as parameter %q is assumed to leave the modelled state unchanged (abstract call … pure)", x.topName, pn))
					r := x.u.FreshVal("abs", rt)
					x.u.assumeValExisting(st, r)
					return r, nil
				}
			}
		}
	}
	x.u.Trust("call through an unknown function value: arbitrary result, whole heap havocked")
	x.havocAllAtCall(fr, st, args)
	return x.u.FreshVal("dyn", rt), nil
}

// ---------------------------------------------------------------------------
// inlining

func (x *Exec) inline(fr *Frame, st *State, callee *ssa.Function, args []Val, bindings []Val, rt types.Type, pos token.Pos) (Val, error) {
	if callee.Blocks == nil {
		return x.opaqueCall(fr, st, callee.String(), rt, args, pos)
	}
	nf := x.newFrame(callee, fr)
	if len(args) != len(callee.Params) {
		return Val{}, engineErr("inline %s: %d args for %d params", callee, len(args), len(callee.Params))
	}
	for i, p := range callee.Params {
		nf.regs[p] = args[i]
		nf.paramVals[p.Name()] = args[i]
	}
	for i, fv := range callee.FreeVars {
		if i >= len(bindings) {
			return Val{}, engineErr("inline %s: missing binding for free variable %s", callee, fv.Name())
		}
		nf.regs[fv] = bindings[i]
	}
	nf.entry = st.Clone()
	work := st.Clone()
	if err := x.runBody(nf, work); err != nil {
		return Val{}, err
	}
	if len(nf.rets) == 0 {
		// never returns (panics / loops forever)
		st.PC = False
		return x.u.ZeroValOrTuple(rt), nil
	}
	var sts []*State
	for _, r := range nf.rets {
		sts = append(sts, r.st)
	}
	merged := x.u.MergeStates(sts, fmt.Sprintf("ret.f%d", nf.id))
	// drop the callee's locals
	prefix := fmt.Sprintf("f%d.", nf.id)
	for k := range merged.Vars {
		if strings.HasPrefix(k, prefix) {
			delete(merged.Vars, k)
		}
	}
	// result values
	var res Val
	nres := callee.Signature.Results().Len()
	if nres > 0 {
		pcs := make([]Term, len(nf.rets))
		for i, r := range nf.rets {
			pcs[i] = r.st.PC
		}
		var parts []Val
		for ri := 0; ri < nres; ri++ {
			vals := make([]Val, len(nf.rets))
			for i, r := range nf.rets {
				vals[i] = r.vals[ri]
			}
			var mv Val
			if len(vals) == 1 {
				mv = vals[0]
			} else {
				mv = x.u.mergeVals(fmt.Sprintf("res%d.f%d", ri, nf.id), callee.Signature.Results().At(ri).Type(), vals, pcs)
			}
			parts = append(parts, mv)
		}
		if nres == 1 {
			res = parts[0]
		} else {
			res = Val{T: rt}
			for _, p := range parts {
				if p.P != nil || p.F != nil {
					return Val{}, engineErr("inline %s: engine-level value in a multi-result return", callee)
				}
				res.S = append(res.S, p.S...)
			}
		}
	} else {
		res = Val{T: rt}
	}
	*st = *merged
	return res, nil
}

func (u *Unit) ZeroValOrTuple(t types.Type) Val {
	if tt, ok := t.(*types.Tuple); ok {
		v := Val{T: t}
		for i := 0; i < tt.Len(); i++ {
			v.S = append(v.S, u.ZeroVal(tt.At(i).Type()).S...)
		}
		return v
	}
	return u.ZeroVal(t)
}

// ---------------------------------------------------------------------------
// modular calls

func paramNames(fc *FuncContract, callee *ssa.Function, sig *types.Signature) []string {
	var names []string
	if callee != nil && len(callee.Params) > 0 {
		for _, p := range callee.Params {
			names = append(names, p.Name())
		}
		return names
	}
	if len(fc.ParamNames) > 0 {
		return fc.ParamNames
	}
	if sig.Recv() != nil {
		n := sig.Recv().Name()
		if n == "" || n == "_" {
			n = "self"
		}
		names = append(names, n)
	}
	for i := 0; i < sig.Params().Len(); i++ {
		n := sig.Params().At(i).Name()
		if n == "" || n == "_" {
			n = fmt.Sprintf("a%d", i)
		}
		names = append(names, n)
	}
	return names
}

func resultNames(sig *types.Signature) []string {
	var names []string
	for i := 0; i < sig.Results().Len(); i++ {
		n := sig.Results().At(i).Name()
		if n == "" || n == "_" {
			if sig.Results().Len() == 1 {
				n = "result"
			} else {
				n = fmt.Sprintf("result%d", i)
			}
		}
		names = append(names, n)
	}
	return names
}

func (x *Exec) callContract(fr *Frame, st *State, fc *FuncContract, callee *ssa.Function, sig *types.Signature, args []Val, rt types.Type, pos token.Pos, what string) (Val, error) {
	u := x.u
	names := paramNames(fc, callee, sig)
	if fc.ParamNames != nil {
		names = fc.ParamNames
	}
	if len(names) != len(args) {
		return Val{}, engineErr("call %s: %d parameter names for %d arguments", fc.Key, len(names), len(args))
	}
	for _, a := range args {
		if a.P != nil {
			// a pointer to a local passed to a modular callee: not representable
			for _, alt := range a.P.Alts {
				if alt.A.Kind == ALocal {
					return Val{}, engineErr("%s: address of a local passed to %s (callee has a contract; mark it inline)", x.topName, fc.Key)
				}
			}
		}
	}
	tag := x.curTag
	if fc.Trusted {
		u.Trust("trusted contract: " + fc.Key)
	} else {
		u.Trust("callee contract (verified as its own unit): " + fc.Key)
	}
	pkg := x.pkgOf(fc, callee)
	env := &Env{x: x, st: st, old: st, names: map[string]Val{}, pkg: pkg}
	for i, n := range names {
		env.names[n] = args[i]
	}
	if err := env.bindLets(fc); err != nil {
		return Val{}, engineErr("call %s: %v", fc.Key, err)
	}
	for ci, c := range fc.Requires {
		g, err := env.Bool(c.E)
		if err != nil {
			return Val{}, engineErr("call %s requires %q: %v", fc.Key, c.Text, err)
		}
		if x.waived("requires") {
			// "waive requires": the callees' preconditions are established elsewhere (stated in the contract's comment)
			u.Trust(fmt.Sprintf("%s: preconditions of callees waived by contract (assumed to hold at the call: %s)", x.topName, fc.Key))
			u.Assume(Implies(st.PC, g))
			continue
		}
		u.AddObligation(x.topName, fmt.Sprintf("requires@%s.c%d", tag, ci+1), pos, x.lab(nil), c.Text, st.PC, g)
	}
	pre := st.Clone()
	// monotone allocation
	na := u.Fresh("alloc", SInt)
	u.Assume(Ge(na, st.Alloc))
	st.Alloc = na
	u.havocAlloc = na
	// havoc the frame
	x.curCallFrame, x.curCallArgs = fr, args
	siteTag := x.curTag
	var sitePreserves []string
	if x.topFC != nil && x.topFC.CallPreserves != nil {
		if sitePreserves = x.topFC.CallPreserves[x.curTag]; len(sitePreserves) > 0 {
			u.Trust(fmt.Sprintf("%s: at %s the callee is assumed to keep %s (call-site frame stated by the caller's contract; justified by the contracts of the functions handed to the callee)", x.topName, x.curTag, strings.Join(sitePreserves, ", ")))
		}
	}
	if err := x.havocModifies(env, st, fc, sitePreserves...); err != nil {
		return Val{}, engineErr("call %s: %v", fc.Key, err)
	}
	if st.Epoch != pre.Epoch {
		// "modifies heap": the allocation counter of the new epoch is the one after the call
		st.Alloc = na
	}
	u.havocAlloc = Term{}
	// results
	res := u.FreshValOrTuple("r."+what, rt)
	post := &Env{x: x, st: st, old: pre, names: map[string]Val{}, pkg: pkg}
	for i, n := range names {
		post.names[n] = args[i]
	}
	rn := resultNames(sig)
	if len(rn) == 1 {
		post.names[rn[0]] = res
		post.names["result"] = res
	} else if len(rn) > 1 {
		tt := rt.(*types.Tuple)
		off := 0
		for i, n := range rn {
			k := len(u.Layout(tt.At(i).Type()))
			post.names[n] = Val{T: tt.At(i).Type(), S: res.S[off : off+k]}
			post.names[fmt.Sprintf("result%d", i)] = post.names[n]
			off += k
		}
	}
	if fc.Pkg == "trusted" && na.S != pre.Alloc.S {
		// a function outside the repository allocates no object of a struct type other than what it returns: every
		// other object created during the call is not a struct object (dyn 0)
		var excl []Term
		for i, sl := range u.Layout(res.T) {
			if sl.Ref && i < len(res.S) {
				excl = append(excl, Neq(Term{"qr", SInt}, res.S[i]))
			}
		}
		body := Implies(And(append(excl, Gt(App("root", SInt, Term{"qr", SInt}), pre.Alloc), Le(App("root", SInt, Term{"qr", SInt}), na))...), Eq(App("dyn", SInt, Term{"qr", SInt}), IntLit(0)))
		u.Assume(Term{fmt.Sprintf("(forall ((qr Int)) (! %s :pattern ((dyn qr))))", body.S), SBool})
	}
	if err := post.bindLetsOld(fc, env); err != nil {
		return Val{}, engineErr("call %s: %v", fc.Key, err)
	}
	for _, c := range fc.Ensures {
		if strings.Contains(c.Text, "called(") || strings.Contains(c.Text, "spawned(") {
			// a clause about the callee's own call sites / goroutines: meaningful only inside the callee
			continue
		}
		g, err := post.Bool(c.E)
		if err != nil {
			if name := unknownIdentOf(err); name != "" && calleeHasLocal(callee, name) {
				// a clause about a local of the callee (e.g. its scratch buffer): it says nothing a caller can use
				continue
			}
			return Val{}, engineErr("call %s ensures %q: %v", fc.Key, c.Text, err)
		}
		u.Assume(Implies(st.PC, g))
	}
	if x.topFC != nil && x.topFC.CallAssume != nil {
		for _, c := range x.topFC.CallAssume[siteTag] {
			// the caller's contract states a fact about the state after this call (glue for what the callee does with
			// the functions handed to it); it is assumed, and listed
			aenv := x.envFor(fr, st, pre)
			g, err := aenv.Bool(c.E)
			if err != nil {
				return Val{}, engineErr("%s: call %s assume %q: %v", x.topName, siteTag, c.Text, err)
			}
			u.Trust(fmt.Sprintf("%s: assumed after %s: %s", x.topName, siteTag, c.Text))
			u.Assume(Implies(st.PC, g))
		}
	}
	// result references: either pre-existing or allocated by the callee (<= new alloc)
	u.assumeValExisting(st, res)
	return res, nil
}

func (u *Unit) FreshValOrTuple(prefix string, t types.Type) Val {
	if tt, ok := t.(*types.Tuple); ok {
		v := Val{T: t}
		for i := 0; i < tt.Len(); i++ {
			v.S = append(v.S, u.FreshVal(fmt.Sprintf("%s%d", prefix, i), tt.At(i).Type()).S...)
		}
		return v
	}
	return u.FreshVal(prefix, t)
}

func (x *Exec) pkgOf(fc *FuncContract, callee *ssa.Function) *types.Package {
	if callee != nil && callee.Pkg != nil {
		return callee.Pkg.Pkg
	}
	if pk, ok := x.prog.ByPath[fc.Pkg]; ok {
		return pk.Types
	}
	// trusted contract on an external function: resolve names relative to the package in the key
	key := fc.Key
	key = strings.TrimPrefix(key, "(")
	key = strings.TrimPrefix(key, "*")
	if i := strings.LastIndex(key, "."); i >= 0 {
		p := key[:i]
		if j := strings.Index(p, ")"); j >= 0 {
			p = p[:j]
		}
		if k := strings.LastIndex(p, "."); k >= 0 && strings.Contains(key, ")") {
			p = p[:k]
		}
		if pk, ok := x.prog.ByPath[p]; ok {
			return pk.Types
		}
	}
	if x.topFrame != nil && x.topFrame.fn.Pkg != nil {
		return x.topFrame.fn.Pkg.Pkg
	}
	return nil
}

// ---------------------------------------------------------------------------
// defer

func (x *Exec) deferInstr(fr *Frame, st *State, d *ssa.Defer) error {
	for _, rec := range fr.defers {
		if rec.instr == d {
			st.Vars[rec.flag] = scalar(types.Typ[types.Bool], True)
			return nil
		}
	}
	return engineErr("%s: defer not pre-registered", x.fnShort(fr.fn))
}

// registerDefers finds the defer statements of fn (program order) and clears their flags.
func (x *Exec) registerDefers(fr *Frame, st *State, loops map[*ssa.BasicBlock]*loopInfo) error {
	for _, b := range rpo(fr.fn) {
		for _, ins := range b.Instrs {
			if d, ok := ins.(*ssa.Defer); ok {
				for _, li := range loops {
					if li.body[b] {
						return engineErr("%s: defer inside a loop is outside the subset", x.fnShort(fr.fn))
					}
				}
				rec := &deferRec{instr: d, flag: fmt.Sprintf("f%d.defer%d", fr.id, len(fr.defers)), call: d.Call}
				fr.defers = append(fr.defers, rec)
				st.Vars[rec.flag] = scalar(types.Typ[types.Bool], False)
			}
		}
	}
	return nil
}

func (x *Exec) runDefers(fr *Frame, st *State) error {
	for i := len(fr.defers) - 1; i >= 0; i-- {
		rec := fr.defers[i]
		fv, ok := st.Vars[rec.flag]
		if !ok {
			return engineErr("%s: defer flag lost", x.fnShort(fr.fn))
		}
		flag := fv.One()
		if flag.IsFalse() {
			continue
		}
		run := st.Clone()
		run.PC = x.u.Define("deferpc", And(st.PC, flag))
		skip := st.Clone()
		skip.PC = x.u.Define("deferskip", And(st.PC, Not(flag)))
		c := rec.call
		if _, err := x.call(fr, run, &c, rec.instr, rec.instr.Pos()); err != nil {
			return err
		}
		if flag.IsTrue() {
			*st = *run
		} else {
			m := x.u.MergeStates([]*State{run, skip}, "afterdefer")
			*st = *m
		}
	}
	return nil
}

// ---------------------------------------------------------------------------
// range over maps / strings

type rangeState struct {
	mapType *types.Map
	m       Term
	visited string // state var key: Array K Bool
	isStr   bool
	s       Term
	pos     string // state var key: Int
}

func (x *Exec) rangeInit(fr *Frame, st *State, t *ssa.Range) error {
	u := x.u
	xv, err := x.val(fr, st, t.X)
	if err != nil {
		return err
	}
	switch tt := t.X.Type().Underlying().(type) {
	case *types.Map:
		ks := u.keySort(tt.Key())
		key := fmt.Sprintf("f%d.range.%s.visited", fr.id, t.Name())
		st.Vars[key] = Val{T: nil, S: []Term{{fmt.Sprintf("((as const %s) false)", ArrSort(ks, SBool)), ArrSort(ks, SBool)}}}
		fr.regs[t] = Val{T: t.Type(), S: []Term{xv.One()}}
		fr.localKeys["$visited"] = append(fr.localKeys["$visited"], key)
		x.assumeMapFacts(st, tt, xv.One())
		return nil
	case *types.Basic:
		key := fmt.Sprintf("f%d.range.%s.pos", fr.id, t.Name())
		st.Vars[key] = Val{T: types.Typ[types.Int], S: []Term{u.IntC(0)}}
		fr.regs[t] = Val{T: t.Type(), S: []Term{xv.One()}}
		return nil
	}
	return engineErr("range over %s unsupported", t.X.Type())
}

func (x *Exec) rangeNext(fr *Frame, st *State, t *ssa.Next) error {
	u := x.u
	it, err := x.val(fr, st, t.Iter)
	if err != nil {
		return err
	}
	rng := t.Iter.(*ssa.Range)
	tt := t.Type().(*types.Tuple)
	if t.IsString {
		key := fmt.Sprintf("f%d.range.%s.pos", fr.id, rng.Name())
		pos := st.Vars[key].One()
		s := it.One()
		ln := x.strLen(s)
		ok := u.ILt(pos, ln)
		// rune decoding: width 1..4, rune arbitrary but consistent for ASCII
		w := u.Fresh("runew", u.IntSort())
		r := u.Fresh("rune", u.sortOfInt(intInfo{32, true}))
		one, four := u.IntC(1), u.IntC(4)
		u.Assume(Implies(ok, And(u.ILe(one, w), u.ILe(w, four), u.ILe(u.IAdd(pos, w), ln))))
		b0 := x.strByte(s, pos)
		b8 := intInfo{8, false}
		r32 := intInfo{32, true}
		ascii := u.Cmp(token.LSS, b0, u.IntConst(bigInt(128), b8), b8)
		u.Assume(Implies(And(ok, ascii), And(Eq(w, one), Eq(r, u.Convert(b0, b8, r32)))))
		u.Assume(Implies(And(ok, Not(ascii)), Or(u.Cmp(token.GEQ, r, u.IntConst(bigInt(128), r32), r32))))
		u.Trust("range over string: UTF-8 decoding abstracted (ASCII exact; other runes >= 0x80 with width 1..4)")
		st.Vars[key] = Val{T: types.Typ[types.Int], S: []Term{u.Define("rpos", Ite(ok, u.IAdd(pos, w), pos))}}
		fr.regs[t] = Val{T: tt, S: []Term{u.Define("rok", ok), pos, r}}
		return nil
	}
	mt := rng.X.Type().Underlying().(*types.Map)
	m := it.One()
	key := fmt.Sprintf("f%d.range.%s.visited", fr.id, rng.Name())
	visited := st.Vars[key].One()
	ks := u.keySort(mt.Key())
	kl := u.Layout(mt.Key())[0]
	k := u.Fresh("rk", ks)
	u.assumeSlot(k, kl)
	ok := u.Fresh("rok", SBool)
	dom := Select(Select(u.comp(st, mapDomComp(mt.Key(), mt.Elem()), ArrSort(SInt, ArrSort(ks, SBool))), m), k)
	// ok => k in dom, not visited ; !ok => all keys of dom visited
	u.Assume(Implies(ok, And(Neq(m, IntLit(0)), dom, Not(Select(visited, k)))))
	qv := Term{"qk", ks}
	allv := Term{fmt.Sprintf("(forall ((qk %s)) (! (=> (select (select %s %s) qk) (select %s qk)) :pattern ((select %s qk))))",
		ks, u.comp(st, mapDomComp(mt.Key(), mt.Elem()), ArrSort(SInt, ArrSort(ks, SBool))).S, m.S, visited.S, visited.S), SBool}
	_ = qv
	u.Assume(Implies(And(Not(ok), Neq(m, IntLit(0))), allv))
	st.Vars[key] = Val{S: []Term{u.Define("visited", Ite(ok, Store(visited, k, True), visited))}}
	v, _ := x.mapRead(st, mt, m, k)
	v = x.named(v, "rv")
	u.assumeValExisting(st, v)
	if kk := classify(mt.Key()); kk == KPtrStruct || kk == KPtrCell {
		u.AssumeExisting(st, k)
	}
	u.Trust("map iteration: each key visited at most once, all keys visited at normal loop exit, provided the loop body does not change the map's key set")
	out := Val{T: tt, S: []Term{ok, k}}
	out.S = append(out.S, v.S...)
	fr.regs[t] = out
	return nil
}

func (x *Exec) selectInstr(fr *Frame, st *State, t *ssa.Select) error {
	u := x.u
	// nondeterministic choice of a case; received values arbitrary
	n := len(t.States)
	idx := u.Fresh("selidx", u.IntSort())
	lo := 0
	if !t.Blocking {
		lo = -1
	}
	u.Assume(And(u.ILe(u.IntC(int64(lo)), idx), u.ILt(idx, u.IntC(int64(n)))))
	tt := t.Type().(*types.Tuple)
	out := Val{T: tt, S: []Term{idx, u.Fresh("selok", SBool)}}
	for i := 2; i < tt.Len(); i++ {
		out.S = append(out.S, u.FreshVal("selrecv", tt.At(i).Type()).S...)
	}
	u.Trust("select: nondeterministic choice among its cases; received values arbitrary (up to declared channel invariants)")
	// channel invariants ("recv field (T).ch ensures e") for the receive cases
	pos := 2
	for ci, sc := range t.States {
		if sc.Dir == types.SendOnly {
			// a send case: if chosen, the value is appended to the channel's ghost log
			cv, err := x.val(fr, st, sc.Chan)
			if err != nil {
				return err
			}
			xv, err := x.val(fr, st, sc.Send)
			if err != nil {
				return err
			}
			if g, ok, err := x.recvInvariant(fr, st, sc.Chan, xv); err != nil {
				return err
			} else if ok {
				x.u.AddObligation(x.topName, "send-inv", t.Pos(), x.labels, "value sent satisfies the channel invariant", And(st.PC, Eq(idx, u.IntC(int64(ci)))), g)
			}
			if cv.P == nil && len(cv.S) == 1 {
				x.logSend(st, Eq(idx, u.IntC(int64(ci))), cv.S[0], xv)
			}
			continue
		}
		if sc.Dir != types.RecvOnly {
			continue
		}
		et := tt.At(pos).Type()
		k := len(u.Layout(et))
		// slot offset of this received value
		off := 2
		for j := 2; j < pos; j++ {
			off += len(u.Layout(tt.At(j).Type()))
		}
		rv := Val{T: et, S: out.S[off : off+k]}
		if g, ok, err := x.recvInvariant(fr, st, sc.Chan, rv); err != nil {
			return err
		} else if ok {
			u.Assume(Implies(And(st.PC, Eq(idx, u.IntC(int64(ci)))), g))
		}
		u.assumeValExisting(st, rv)
		pos++
	}
	fr.regs[t] = out
	return nil
}

// chanField: if ch is a load of a struct field, returns the owner type and field name.
func chanField(ch ssa.Value) (types.Type, string, bool) {
	ld, ok := ch.(*ssa.UnOp)
	if !ok {
		return nil, "", false
	}
	fa, ok := ld.X.(*ssa.FieldAddr)
	if !ok {
		return nil, "", false
	}
	owner := fa.X.Type().Underlying().(*types.Pointer).Elem()
	return owner, structOf(owner).Field(fa.Field).Name(), true
}

// recvInvariant evaluates the declared invariant of the channel (if any) for a value.
func (x *Exec) recvInvariant(fr *Frame, st *State, ch ssa.Value, v Val) (Term, bool, error) {
	owner, fname, ok := chanField(ch)
	if !ok {
		return Term{}, false, nil
	}
	for _, ri := range x.cs.Recvs {
		if ri.Field != fname {
			continue
		}
		pk := x.prog.ByPath[ri.Pkg]
		if pk == nil {
			continue
		}
		ot, err := x.prog.LookupType(ri.Owner, pk.Types)
		if err != nil || !types.Identical(types.Unalias(ot), types.Unalias(owner)) {
			continue
		}
		env := x.envFor(fr, st, fr.entry)
		env.names["value"] = v
		// "owner": the object whose field holds the channel
		if ld, ok := ch.(*ssa.UnOp); ok {
			if fa, ok := ld.X.(*ssa.FieldAddr); ok {
				if ov, err := x.val(fr, st, fa.X); err == nil {
					env.names["owner"] = ov
				}
			}
		}
		g, err := env.Bool(ri.Clause.E)
		if err != nil {
			return Term{}, false, engineErr("recv invariant of %s.%s: %v", ri.Owner, ri.Field, err)
		}
		x.u.Trust("channel invariant (rely/guarantee): values received from " + ri.Owner + "." + ri.Field + " satisfy: " + ri.Clause.Text)
		return g, true, nil
	}
	return Term{}, false, nil
}

// unknownIdentOf extracts the name from an "unknown identifier" evaluation error ("" for any other error).
func unknownIdentOf(err error) string {
	m := err.Error()
	i := strings.Index(m, "unknown identifier \"")
	if i < 0 {
		return ""
	}
	m = m[i+len("unknown identifier \""):]
	if j := strings.Index(m, "\""); j >= 0 {
		m = m[:j]
	}
	if j := strings.Index(m, "#"); j >= 0 {
		m = m[:j]
	}
	return m
}

// calleeHasLocal reports whether the function has a local variable (not a parameter) of that source name.
func calleeHasLocal(fn *ssa.Function, name string) bool {
	if fn == nil {
		return false
	}
	for _, p := range fn.Params {
		if p.Name() == name {
			return false
		}
	}
	for _, b := range fn.Blocks {
		for _, ins := range b.Instrs {
			switch t := ins.(type) {
			case *ssa.Alloc:
				if t.Comment == name {
					return true
				}
			case *ssa.DebugRef:
				if id, ok := t.Expr.(*ast.Ident); ok && id.Name == name && !t.IsAddr {
					return true
				}
			}
		}
	}
	return false
}

// paramNameOf: the name of the parameter a called function value comes from (directly, or through the local copy the
// naive SSA form makes of every parameter); "" otherwise.
func paramNameOf(v ssa.Value) string {
	switch t := v.(type) {
	case *ssa.Parameter:
		return t.Name()
	case *ssa.UnOp:
		if al, ok := t.X.(*ssa.Alloc); ok && al.Comment != "" {
			for _, p := range al.Parent().Params {
				if p.Name() == al.Comment {
					return al.Comment
				}
			}
		}
	}
	return ""
}

// localFuncNameOf: the source name of the local variable a called function value is loaded from ("" otherwise).
func localFuncNameOf(v ssa.Value) string {
	if t, ok := v.(*ssa.UnOp); ok {
		if al, ok := t.X.(*ssa.Alloc); ok && al.Comment != "" {
			return al.Comment
		}
	}
	return ""
}
