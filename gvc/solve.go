package main

import (
	"bytes"
	"sort"
	"context"
	"fmt"
	"os"
	"os/exec"
	"path/filepath"
	"strings"
	"sync"
	"time"
)

type SolverSpec struct {
	Name string
	Cmd  []string
	Pre  string // text prepended to the query
}

func solverSpecs(timeout time.Duration) []SolverSpec {
	ms := int(timeout / time.Millisecond)
	return []SolverSpec{
		{"z3-5.1.0", []string{"z3-new", "-smt2", fmt.Sprintf("-t:%d", ms)}, ""},
		{"z3-4.8.12", []string{"z3", "-smt2", fmt.Sprintf("-t:%d", ms)}, ""},
		{"cvc5-1.0", []string{"cvc5", "--lang=smt2", fmt.Sprintf("--tlimit=%d", ms), "--produce-models"}, "(set-logic ALL)\n"},
		// the same solver with another random seed: quantifier instantiation on the larger heap invariants is
		// sensitive to it (a query that times out with the default seed came back unsat in a second with any other)
		{"z3-5.1.0-seed1", []string{"z3-new", "-smt2", fmt.Sprintf("-t:%d", ms), "smt.random_seed=1", "sat.random_seed=1"}, ""},
		{"z3-5.1.0-seed2", []string{"z3-new", "-smt2", fmt.Sprintf("-t:%d", ms), "smt.random_seed=2", "sat.random_seed=2"}, ""},
		{"z3-5.1.0-seed3", []string{"z3-new", "-smt2", fmt.Sprintf("-t:%d", ms), "smt.random_seed=3", "sat.random_seed=3"}, ""},
	}
}

// Query builds the SMT-LIB text of one obligation.
// symbolsOf lists the declared constants mentioned in an SMT command.
func (u *Unit) symbolsOf(cmd string) []string {
	var out []string
	i := 0
	for i < len(cmd) {
		c := cmd[i]
		if c == '(' || c == ')' || c == ' ' || c == '\n' || c == '\t' {
			i++
			continue
		}
		j := i
		for j < len(cmd) && cmd[j] != '(' && cmd[j] != ')' && cmd[j] != ' ' && cmd[j] != '\n' && cmd[j] != '\t' {
			j++
		}
		tok := cmd[i:j]
		if _, ok := u.declared[tok]; ok {
			out = append(out, tok)
		}
		i = j
	}
	return out
}

// relevantCmds is a cone-of-influence filter: starting from the symbols of the path condition and the goal it keeps
// the definitions of relevant symbols and the assumptions that mention a relevant symbol, to a fixpoint.
// Dropping assumptions can only make a proof harder, never unsound.
func (u *Unit) relevantCmds(o *Obligation) []bool {
	n := o.NCmds
	keep := make([]bool, n)
	syms := make([][]string, n)
	isDecl := make([]bool, n)
	for i := 0; i < n; i++ {
		c := u.cmds[i]
		if strings.HasPrefix(c, "(declare-const ") {
			isDecl[i] = true
			continue
		}
		if strings.HasPrefix(c, "(declare-fun ") {
			keep[i] = true
			continue
		}
		syms[i] = u.symbolsOf(c)
	}
	rel := map[string]bool{}
	for _, s := range u.symbolsOf(o.PC.S + " " + o.Goal.S) {
		rel[s] = true
	}
	for changed := true; changed; {
		changed = false
		for i := 0; i < n; i++ {
			if keep[i] || isDecl[i] {
				continue
			}
			hit := false
			for _, s := range syms[i] {
				if rel[s] {
					hit = true
					break
				}
			}
			if len(syms[i]) == 0 {
				hit = true // closed axioms
			}
			if hit {
				keep[i] = true
				for _, s := range syms[i] {
					if !rel[s] {
						rel[s] = true
						changed = true
					}
				}
			}
		}
	}
	for i := 0; i < n; i++ {
		if isDecl[i] {
			f := strings.Fields(u.cmds[i])
			if len(f) >= 2 && rel[f[1]] {
				keep[i] = true
			}
		}
	}
	return keep
}

func (u *Unit) Query(o *Obligation, wantModel bool, relaxed bool) string {
	var b strings.Builder
	keep := u.relevantCmds(o)
	if relaxed {
		for _, l := range strings.Split(u.Preamble(), "\n") {
			if !strings.HasPrefix(l, "(assert (forall") {
				b.WriteString(l)
				b.WriteByte('\n')
			}
		}
	} else {
		b.WriteString(u.Preamble())
	}
	for ci, c := range u.cmds[:o.NCmds] {
		if !keep[ci] {
			continue
		}
		if relaxed && strings.HasPrefix(c, "(assert ") && strings.Contains(c, "(forall (") {
			// any assumption with a quantifier in it (also a path-guarded one) is left out of the relaxation
			continue
		}
		b.WriteString(c)
		b.WriteByte('\n')
	}
	fmt.Fprintf(&b, "(assert %s)\n", o.PC.S)
	fmt.Fprintf(&b, "(assert (not %s))\n", o.Goal.S)
	b.WriteString("(check-sat)\n")
	if wantModel {
		b.WriteString("(get-model)\n")
		var wits []string
		for ci, c := range u.cmds[:o.NCmds] {
			if keep[ci] && strings.HasPrefix(c, "(declare-const wit$") {
				wits = append(wits, strings.Fields(c)[1])
			}
		}
		if len(wits) > 0 {
			sort.Strings(wits)
			b.WriteString("(echo \"witness-values\")\n(get-value (" + strings.Join(wits, " ") + "))\n")
		}
	}
	return b.String()
}

type solveOut struct {
	solver string
	answer string // sat unsat unknown timeout error
	out    string
	dur    time.Duration
}

func runSolver(ctx context.Context, sp SolverSpec, file string) solveOut {
	t0 := time.Now()
	cmd := exec.CommandContext(ctx, sp.Cmd[0], append(sp.Cmd[1:], file)...)
	var out bytes.Buffer
	cmd.Stdout = &out
	cmd.Stderr = &out
	err := cmd.Run()
	d := time.Since(t0)
	s := out.String()
	first := strings.TrimSpace(strings.SplitN(s, "\n", 2)[0])
	switch first {
	case "sat", "unsat":
		return solveOut{sp.Name, first, s, d}
	case "unknown":
		return solveOut{sp.Name, "unknown", s, d}
	case "timeout":
		return solveOut{sp.Name, "timeout", s, d}
	}
	if ctx.Err() != nil {
		return solveOut{sp.Name, "timeout", s, d}
	}
	_ = err
	return solveOut{sp.Name, "error", s, d}
}

// parseModel extracts the nullary definitions of a (get-model) answer: name -> value text.
func parseModel(out string) map[string]string {
	m := map[string]string{}
	// evaluated witness values, if the solver printed them, take precedence over raw definitions
	defer func() {
		k := strings.Index(out, "witness-values")
		if k < 0 {
			return
		}
		rest := out[k+len("witness-values"):]
		p := strings.Index(rest, "((")
		if p < 0 {
			return
		}
		tops := sexpTop(rest[p:])
		if len(tops) == 0 {
			return
		}
		inner := tops[0]
		for _, pair := range sexpTop(inner[1 : len(inner)-1]) {
			kv := sexpTop(pair[1 : len(pair)-1])
			if len(kv) == 2 {
				m[strings.Trim(kv[0], "|")] = strings.Join(strings.Fields(kv[1]), " ")
			}
		}
	}()
	i := strings.Index(out, "(define-fun")
	for i >= 0 && i < len(out) {
		// find the matching close paren of this define-fun
		depth, j := 0, i
		for ; j < len(out); j++ {
			if out[j] == '(' {
				depth++
			} else if out[j] == ')' {
				depth--
				if depth == 0 {
					break
				}
			}
		}
		if j >= len(out) {
			break
		}
		body := out[i+len("(define-fun") : j]
		toks := sexpTop(body)
		// name () sort value
		if len(toks) == 4 && toks[1] == "()" {
			m[strings.Trim(toks[0], "|")] = strings.Join(strings.Fields(toks[3]), " ")
		}
		k := strings.Index(out[j:], "(define-fun")
		if k < 0 {
			break
		}
		i = j + k
	}
	return m
}

// sexpTop splits s into its top-level s-expressions.
func sexpTop(s string) []string {
	var out []string
	i := 0
	for i < len(s) {
		for i < len(s) && (s[i] == ' ' || s[i] == '\n' || s[i] == '\t' || s[i] == '\r') {
			i++
		}
		if i >= len(s) {
			break
		}
		start := i
		if s[i] == '(' {
			depth := 0
			for ; i < len(s); i++ {
				if s[i] == '(' {
					depth++
				} else if s[i] == ')' {
					depth--
					if depth == 0 {
						i++
						break
					}
				}
			}
		} else if s[i] == '|' {
			i++
			for i < len(s) && s[i] != '|' {
				i++
			}
			i++
		} else {
			for i < len(s) && s[i] != ' ' && s[i] != '\n' && s[i] != '\t' && s[i] != '(' && s[i] != ')' {
				i++
			}
		}
		out = append(out, s[start:i])
	}
	return out
}

// Solve discharges one obligation with the portfolio.
func Solve(u *Unit, o *Obligation, dir string, timeout time.Duration, idx int) {
	q := u.Query(o, true, false)
	qr := u.Query(o, true, true)
	o.SMTBytes = len(q)
	if len(q) > 4<<20 {
		o.Status = "undecided"
		o.Output = fmt.Sprintf("query too large (%d bytes): split the function or abstract", len(q))
		return
	}
	base := filepath.Join(dir, fmt.Sprintf("%s_%d", sanitize(o.Name), idx))
	// stage 1: one fast solver alone (most obligations are discharged in well under a second)
	{
		quick := 3 * time.Second
		if quick > timeout {
			quick = timeout
		}
		sp := solverSpecs(quick)[0]
		file := base + ".stage1.smt2"
		q1 := q
		if err := os.WriteFile(file, []byte(sp.Pre+q1), 0o644); err == nil {
			c1, cancel1 := context.WithTimeout(context.Background(), quick+time.Second)
			r := runSolver(c1, sp, file)
			cancel1()
			if os.Getenv("GVC_KEEPALL") == "" {
				os.Remove(file)
			}
			if r.answer == "unsat" {
				o.Solver, o.TimeS = r.solver, r.dur.Seconds()
				o.Status = "proved"
				if o.Vacuity {
					o.Status = "failed"
					o.Output = "vacuity probe is unsatisfiable: assumptions are contradictory"
				}
				return
			}
			if r.answer == "sat" && o.Vacuity {
				o.Solver, o.TimeS, o.Status = r.solver, r.dur.Seconds(), "proved"
				return
			}
			if o.Vacuity && qr != q {
				// the full query was not refuted; satisfiability is then looked for on the relaxation
				// (quantified assumptions dropped)
				os.WriteFile(file, []byte(sp.Pre+qr), 0o644)
				c2, cancel2 := context.WithTimeout(context.Background(), quick+time.Second)
				r2 := runSolver(c2, sp, file)
				cancel2()
				os.Remove(file)
				if r2.answer == "sat" {
					o.Solver, o.TimeS, o.Status = "relaxed-"+r2.solver, r.dur.Seconds()+r2.dur.Seconds(), "proved"
					return
				}
			}
		}
	}
	if o.Vacuity && timeout > 8*time.Second {
		// a probe only matters when it is refuted (contradictory assumptions); that shows quickly or not at all
		timeout = 8 * time.Second
	}
	ctx, cancel := context.WithTimeout(context.Background(), timeout+2*time.Second)
	defer cancel()
	specs := solverSpecs(timeout)
	if qr != q {
		specs = append(specs, SolverSpec{"relaxed-z3-5.1.0", specs[0].Cmd, ""})
	}
	res := make(chan solveOut, len(specs))
	var wg sync.WaitGroup
	for _, sp := range specs {
		file := base + "." + sp.Name + ".smt2"
		text := q
		if strings.HasPrefix(sp.Name, "relaxed") {
			text = qr
		}
		if err := os.WriteFile(file, []byte(sp.Pre+text), 0o644); err != nil {
			o.Status = "error"
			o.Output = err.Error()
			return
		}
		wg.Add(1)
		go func(sp SolverSpec, file string) {
			defer wg.Done()
			res <- runSolver(ctx, sp, file)
		}(sp, file)
	}
	go func() { wg.Wait(); close(res) }()
	var outs []solveOut
	var candidate *solveOut
	for r := range res {
		outs = append(outs, r)
		if strings.HasPrefix(r.solver, "relaxed") && r.answer != "unsat" {
			// a model of the relaxation (quantified assumptions dropped) is only a candidate
			if r.answer == "sat" && o.Vacuity {
				// reachability probe: satisfiable once quantified assumptions are dropped
				cancel()
				o.Solver, o.TimeS, o.Status = r.solver, r.dur.Seconds(), "proved"
				go func() {
					for range res {
					}
				}()
				cleanup(base, specs, false)
				return
			}
			if r.answer == "sat" {
				rc := r
				candidate = &rc
			}
			continue
		}
		if r.answer == "sat" || r.answer == "unsat" {
			cancel()
			o.Solver = r.solver
			o.TimeS = r.dur.Seconds()
			if r.answer == "unsat" {
				o.Status = "proved"
				if o.Vacuity {
					o.Status = "failed" // a vacuity probe must be satisfiable
					o.Output = "vacuity probe is unsatisfiable: assumptions are contradictory"
				}
			} else {
				o.Status = "failed"
				o.Model = parseModel(r.out)
				o.Output = r.out
				if len(o.Output) > 6000 {
					o.Output = o.Output[:6000] + "\n...[truncated]"
				}
				if o.Vacuity {
					o.Status = "proved"
					o.Output = ""
					o.Model = nil
				}
			}
			// drain
			go func() {
				for range res {
				}
			}()
			cleanup(base, specs, o.Status == "failed")
			return
		}
	}
	o.Status = "undecided"
	if candidate != nil && !o.Vacuity {
		o.Status = "candidate"
		o.Solver = candidate.solver
		o.Model = parseModel(candidate.out)
	}
	var sb strings.Builder
	for _, r := range outs {
		fmt.Fprintf(&sb, "%s: %s (%.1fs) %s\n", r.solver, r.answer, r.dur.Seconds(), firstLines(r.out, 3))
		if r.dur.Seconds() > o.TimeS {
			o.TimeS = r.dur.Seconds()
		}
	}
	o.Output = sb.String()
	cleanup(base, specs, true)
}

func firstLines(s string, n int) string {
	ls := strings.Split(strings.TrimSpace(s), "\n")
	if len(ls) > n {
		ls = ls[:n]
	}
	return strings.Join(ls, " | ")
}

func cleanup(base string, specs []SolverSpec, keepOne bool) {
	if os.Getenv("GVC_KEEPALL") != "" {
		return
	}
	for i, sp := range specs {
		f := base + "." + sp.Name + ".smt2"
		if keepOne && i == 0 {
			continue
		}
		os.Remove(f)
	}
}

// SolveAll runs all obligations of the units with the given parallelism.
func SolveAll(units []*Unit, dir string, timeout time.Duration, par int) {
	type job struct {
		u *Unit
		o *Obligation
		i int
	}
	var jobs []job
	n := 0
	for _, u := range units {
		for _, o := range u.Obls {
			jobs = append(jobs, job{u, o, n})
			n++
		}
	}
	ch := make(chan job)
	var wg sync.WaitGroup
	for w := 0; w < par; w++ {
		wg.Add(1)
		go func() {
			defer wg.Done()
			for j := range ch {
				Solve(j.u, j.o, dir, timeout, j.i)
			}
		}()
	}
	for _, j := range jobs {
		ch <- j
	}
	close(ch)
	wg.Wait()
}
