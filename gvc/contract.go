package main

import (
	"bufio"
	"fmt"
	"os"
	"path/filepath"
	"regexp"
	"strconv"
	"strings"
)

type Clause struct {
	Kind   string // requires ensures invariant decreases assert
	Labels []string
	Text   string
	E      Expr
	Loop   int
	File   string
	Line   int
}

type Monitor struct {
	Lock     string // textual expression of the lock, e.g. "p.cond.L" or "s.clientMu"
	Protects []string
	Inv      []*Clause
}

type SpecFunc struct {
	Name   string
	Params []Binder
	Result string
	Body   Expr
	Opaque bool
	Text   string
	Mode   Mode     // with HasMode: the body is only expanded in units of this mode
	HasMode bool
	Reads  []string // for functions that are uninterpreted in other modes: what state they depend on
	Uninterp bool
}

type GhostVar struct {
	Name string
	Type string
}

type GhostField struct {
	Owner string // type name as written
	Name  string
	Type  string
	Pkg   string // package whose contract file declares it (type names resolve relative to it)
}

type FuncContract struct {
	Key      string // canonical function name (ssa String()) or interface method FullName
	Written  string
	Pkg      string
	Mode     Mode
	Inline   bool
	Field    bool
	Trusted  bool
	Pure     bool
	Props    []string
	Requires []*Clause
	Ensures  []*Clause
	Modifies []string // textual items
	Preserves []string // with "modifies heap": components that keep their value nevertheless
	HasModifies bool
	Loops    map[int][]*Clause // invariants / decreases per loop ordinal
	CallAssume map[string][]*Clause // "call Name#k assume e": a fact about the state after that call (old() = before it), trusted
	CallPreserves map[string][]string // "call Name#k preserves items": what the callee keeps at that call site beyond its contract (trusted)
	InlineLoops map[string]map[int][]*Clause // "loop callee.N ...": clauses for loop N of a function inlined into this one
	Monitors []*Monitor
	Waive    map[string]bool
	Abstract []string // "abstract call <pattern>": opaque calls whose effect is limited to modifies <frame>
	Lets     []LetDef
	Witness  []LetDef
	File     string
	Line     int
	ParamNames []string // for trusted contracts on functions without source: names for parameters
	Iterates *IterSpec
	CallInv  map[string][]*Clause
	CallAssert map[string][]*Clause // "call Name#k assert e": checked in the state just before that call
	CallWitness map[string][]LetDef // "call Name#k witness n = e": value of e just before that call, reported with counterexamples
	GhostSets []GhostSet
}

// GhostSet: "ghost set x.$f = e" (see LoadContractFile)
type GhostSet struct {
	LHS  ESel
	RHS  Expr
	Text string
}

type LetDef struct {
	Name string
	E    Expr
}

type IterSpec struct {
	Fn   string
	Text string
}

type Lemma struct {
	Name   string
	Mode   Mode
	Pkg    string
	Clause *Clause
}

// RecvInv: "recv field (T).ch ensures e": every value received from the channel stored in that field satisfies e
// (the variable "value" denotes it); every send on that channel in code under contract must establish it.
type RecvInv struct {
	Owner  string
	Field  string
	Pkg    string
	Clause *Clause
}

type Contracts struct {
	Recvs  []*RecvInv
	Lemmas []*Lemma
	Funcs  map[string]*FuncContract
	Specs  map[string]*SpecFunc
	Ghosts []GhostField
	GhostVars map[string]GhostVar
	Files  []string
	Axioms []*Clause
}

func NewContracts() *Contracts {
	return &Contracts{Funcs: map[string]*FuncContract{}, Specs: map[string]*SpecFunc{}, GhostVars: map[string]GhostVar{}}
}

var labelRe = regexp.MustCompile(`^\[([A-Z0-9 ,]+)\]\s*`)

func parseLabels(s string) ([]string, string) {
	m := labelRe.FindStringSubmatch(s)
	if m == nil {
		return nil, s
	}
	var ls []string
	for _, l := range strings.FieldsFunc(m[1], func(r rune) bool { return r == ' ' || r == ',' }) {
		ls = append(ls, l)
	}
	return ls, s[len(m[0]):]
}

// canonical function key: written form relative to pkgPath.
//   (*wsConn).Read  -> (*<pkg>.wsConn).Read
//   New             -> <pkg>.New
//   (*github.com/x/y.T).M stays.
func canonKey(written, pkgPath string) string {
	w := strings.TrimSpace(written)
	if strings.HasPrefix(w, "(") {
		i := strings.Index(w, ")")
		recv := w[1:i]
		rest := w[i+1:]
		star := ""
		if strings.HasPrefix(recv, "*") {
			star = "*"
			recv = recv[1:]
		}
		if !strings.Contains(recv, ".") {
			recv = pkgPath + "." + recv
		} else if !strings.Contains(recv, "/") {
			// short package alias: resolve later by suffix match
			recv = resolveShort(recv)
		}
		return "(" + star + recv + ")" + rest
	}
	if !strings.Contains(w, ".") || strings.HasPrefix(w, "init") {
		return pkgPath + "." + w
	}
	if !strings.Contains(w, "/") {
		// pkg.Func with short pkg
		return resolveShort(w)
	}
	return w
}

var shortPkgs = map[string]string{
	"packets":      repoMod + "/pkg/packets",
	"bitmap":       repoMod + "/pkg/bitmap",
	"gmqtt":        repoMod,
	"queue":        repoMod + "/persistence/queue",
	"unack":        repoMod + "/persistence/unack",
	"session":      repoMod + "/persistence/session",
	"subscription": repoMod + "/persistence/subscription",
	"retained":     repoMod + "/retained",
	"server":       repoMod + "/server",
	"config":       repoMod + "/config",
	"websocket":    "github.com/gorilla/websocket",
	"atomic":       "sync/atomic",
	"redigo":       "github.com/gomodule/redigo/redis",
	"list":         "container/list",
	"codes":        repoMod + "/pkg/codes",
	"mem":          repoMod + "/persistence/subscription/mem",
	"federation":   repoMod + "/plugin/federation",
}

func resolveShort(q string) string {
	i := strings.LastIndex(q, ".")
	// q may be pkg.Type or pkg.Func ; only the first segment is the package
	j := strings.Index(q, ".")
	_ = i
	p := q[:j]
	if full, ok := shortPkgs[p]; ok {
		return full + q[j:]
	}
	return q
}

// LoadContractFile parses one contract file. pkgPath is the import path used to
// resolve unqualified function names.
func (cs *Contracts) LoadContractFile(path, pkgPath string) error {
	f, err := os.Open(path)
	if err != nil {
		return err
	}
	defer f.Close()
	cs.Files = append(cs.Files, path)
	sc := bufio.NewScanner(f)
	sc.Buffer(make([]byte, 1<<20), 1<<20)
	var lines []struct {
		text string
		line int
	}
	ln := 0
	for sc.Scan() {
		ln++
		t := sc.Text()
		tt := strings.TrimSpace(t)
		if !strings.HasPrefix(tt, "//@") {
			continue
		}
		body := tt[3:]
		if strings.HasPrefix(body, "    ") && len(lines) > 0 { // continuation
			lines[len(lines)-1].text += " " + strings.TrimSpace(body)
			continue
		}
		body = strings.TrimSpace(body)
		// strip trailing comment " // ..."
		if i := strings.Index(body, " // "); i >= 0 {
			body = strings.TrimSpace(body[:i])
		}
		if body == "" || strings.HasPrefix(body, "//") {
			continue
		}
		lines = append(lines, struct {
			text string
			line int
		}{body, ln})
	}
	var cur *FuncContract
	fail := func(line int, format string, a ...interface{}) error {
		return fmt.Errorf("%s:%d: %s", path, line, fmt.Sprintf(format, a...))
	}
	for _, l := range lines {
		word, rest := l.text, ""
		if i := strings.IndexAny(l.text, " \t"); i >= 0 {
			word, rest = l.text[:i], strings.TrimSpace(l.text[i+1:])
		}
		mk := func(kind, text string) (*Clause, error) {
			labels, t := parseLabels(text)
			e, err := ParseExpr(t)
			if err != nil {
				return nil, fail(l.line, "%v", err)
			}
			return &Clause{Kind: kind, Labels: labels, Text: t, E: e, File: path, Line: l.line}, nil
		}
		switch word {
		case "func":
			fields := strings.Fields(rest)
			if len(fields) == 0 {
				return fail(l.line, "func: missing name")
			}
			isField := false
			isType := false
			if fields[0] == "field" && len(fields) > 1 {
				// contract on a function-typed struct field: applies to calls through that field
				isField = true
				fields = fields[1:]
			} else if fields[0] == "type" && len(fields) > 1 {
				// contract on a named function type: applies to every dynamic call of a value of that type
				isType = true
				fields = fields[1:]
			}
			cur = &FuncContract{Written: fields[0], Key: canonKey(fields[0], pkgPath), Pkg: pkgPath,
				Loops: map[int][]*Clause{}, Waive: map[string]bool{}, File: path, Line: l.line, CallInv: map[string][]*Clause{}, CallAssert: map[string][]*Clause{}, CallWitness: map[string][]LetDef{},
				Trusted: pkgPath == "trusted"}
			for i := 1; i < len(fields); i++ {
				switch fields[i] {
				case "mode":
					if i+1 < len(fields) {
						i++
						if fields[i] == "bv" {
							cur.Mode = ModeBV
						}
					}
				case "inline":
					cur.Inline = true
				case "trusted":
					cur.Trusted = true
				case "pure":
					cur.Pure = true
				default:
					return fail(l.line, "func: unknown attribute %q", fields[i])
				}
			}
			if isField {
				cur.Key = "field:" + cur.Key
				cur.Trusted = true // no body: the function value is universally quantified within this contract
				cur.Field = true
			}
			if isType {
				cur.Key = "type:" + cur.Key
				cur.Trusted = true
				cur.Field = true
			}
			if prev, dup := cs.Funcs[cur.Key]; dup {
				return fail(l.line, "duplicate contract for %s (first at %s:%d)", cur.Key, prev.File, prev.Line)
			}
			cs.Funcs[cur.Key] = cur
		case "params":
			if cur == nil {
				return fail(l.line, "params outside func")
			}
			cur.ParamNames = strings.FieldsFunc(rest, func(r rune) bool { return r == ' ' || r == ',' })
		case "props":
			if cur == nil {
				return fail(l.line, "props outside func")
			}
			cur.Props = append(cur.Props, strings.FieldsFunc(rest, func(r rune) bool { return r == ' ' || r == ',' })...)
		case "requires", "ensures":
			if cur == nil {
				return fail(l.line, "%s outside func", word)
			}
			c, err := mk(word, rest)
			if err != nil {
				return err
			}
			if word == "requires" {
				cur.Requires = append(cur.Requires, c)
			} else {
				cur.Ensures = append(cur.Ensures, c)
			}
		case "let":
			if cur == nil {
				return fail(l.line, "let outside func")
			}
			i := strings.Index(rest, "=")
			if i < 0 {
				return fail(l.line, "let: missing =")
			}
			e, err := ParseExpr(rest[i+1:])
			if err != nil {
				return fail(l.line, "%v", err)
			}
			cur.Lets = append(cur.Lets, LetDef{strings.TrimSpace(rest[:i]), e})
		case "witness":
			if cur == nil {
				return fail(l.line, "witness outside func")
			}
			i := strings.Index(rest, "=")
			if i < 0 {
				return fail(l.line, "witness: missing =")
			}
			e, err := ParseExpr(rest[i+1:])
			if err != nil {
				return fail(l.line, "%v", err)
			}
			cur.Witness = append(cur.Witness, LetDef{strings.TrimSpace(rest[:i]), e})
		case "modifies":
			if cur == nil {
				return fail(l.line, "modifies outside func")
			}
			cur.HasModifies = true
			for _, it := range splitTop(rest) {
				it = strings.TrimSpace(it)
				if it != "" && it != "nothing" {
					cur.Modifies = append(cur.Modifies, it)
				}
			}
		case "preserves":
			if cur == nil {
				return fail(l.line, "preserves outside func")
			}
			for _, it := range splitTop(rest) {
				it = strings.TrimSpace(it)
				if it != "" {
					cur.Preserves = append(cur.Preserves, it)
				}
			}
		case "loop":
			if cur == nil {
				return fail(l.line, "loop outside func")
			}
			fs := strings.SplitN(rest, " ", 3)
			if len(fs) < 3 {
				return fail(l.line, "loop: want 'loop N invariant|decreases|step expr'")
			}
			inl := ""
			if i := strings.LastIndex(fs[0], "."); i > 0 {
				// "loop callee.N ...": loop N of the function "callee" inlined into this one; the clause may name the
				// locals of both (the inlined function's first)
				inl, fs[0] = fs[0][:i], fs[0][i+1:]
			}
			n, err := strconv.Atoi(fs[0])
			if err != nil {
				return fail(l.line, "loop ordinal: %v", err)
			}
			if fs[1] != "invariant" && fs[1] != "decreases" && fs[1] != "step" {
				return fail(l.line, "loop: unknown clause %q", fs[1])
			}
			c, err := mk(fs[1], fs[2])
			if err != nil {
				return err
			}
			c.Loop = n
			if inl != "" {
				if cur.InlineLoops == nil {
					cur.InlineLoops = map[string]map[int][]*Clause{}
				}
				if cur.InlineLoops[inl] == nil {
					cur.InlineLoops[inl] = map[int][]*Clause{}
				}
				cur.InlineLoops[inl][n] = append(cur.InlineLoops[inl][n], c)
			} else {
				cur.Loops[n] = append(cur.Loops[n], c)
			}
		case "monitor":
			if cur == nil {
				return fail(l.line, "monitor outside func")
			}
			// monitor <lock> protects a, b, c with invariant <expr>
			m := &Monitor{}
			i := strings.Index(rest, " protects ")
			if i < 0 {
				return fail(l.line, "monitor: missing 'protects'")
			}
			m.Lock = strings.TrimSpace(rest[:i])
			r2 := rest[i+len(" protects "):]
			inv := ""
			if j := strings.Index(r2, " with invariant "); j >= 0 {
				inv = strings.TrimSpace(r2[j+len(" with invariant "):])
				r2 = r2[:j]
			}
			for _, it := range splitTop(r2) {
				m.Protects = append(m.Protects, strings.TrimSpace(it))
			}
			if inv != "" {
				c, err := mk("monitor-invariant", inv)
				if err != nil {
					return err
				}
				m.Inv = append(m.Inv, c)
			}
			cur.Monitors = append(cur.Monitors, m)
		case "waive":
			if cur == nil {
				return fail(l.line, "waive outside func")
			}
			for _, w := range strings.Fields(rest) {
				cur.Waive[w] = true
			}
		case "abstract":
			if cur == nil {
				return fail(l.line, "abstract outside func")
			}
			cur.Abstract = append(cur.Abstract, rest)
		case "spec":
			// spec func name(a T, b U) R = expr     |  spec opaque func ...
			sf, err := parseSpecFunc(rest)
			if err != nil {
				return fail(l.line, "%v", err)
			}
			if _, dup := cs.Specs[sf.Name]; dup {
				return fail(l.line, "duplicate spec func %s", sf.Name)
			}
			cs.Specs[sf.Name] = sf
		case "ghost":
			// ghost field (T).name type
			fs := strings.Fields(rest)
			if len(fs) >= 4 && fs[0] == "set" {
				// ghost set x.$f = e : a ghost assignment executed at the entry of the function's body when the body is
				// verified (the function *defines* that ghost state); RHS is evaluated in the pre-state
				if cur == nil {
					return fail(l.line, "ghost set outside func")
				}
				body := strings.TrimSpace(rest[len("set"):])
				i := strings.Index(body, "=")
				if i < 0 {
					return fail(l.line, "ghost set: missing =")
				}
				lhs, err := ParseExpr(body[:i])
				if err != nil {
					return fail(l.line, "%v", err)
				}
				rhs, err := ParseExpr(body[i+1:])
				if err != nil {
					return fail(l.line, "%v", err)
				}
				sel, ok := lhs.(ESel)
				if !ok || !strings.HasPrefix(sel.Name, "$") {
					return fail(l.line, "ghost set: left side must be x.$f")
				}
				cur.GhostSets = append(cur.GhostSets, GhostSet{sel, rhs, strings.TrimSpace(body)})
				continue
			}
			if len(fs) == 3 && fs[0] == "var" {
				// ghost var name type : a global ghost scalar, written $name
				cs.GhostVars[fs[1]] = GhostVar{fs[1], fs[2]}
				continue
			}
			if len(fs) == 5 && fs[3] == "->" {
				fs = []string{fs[0], fs[1], fs[2] + " -> " + fs[4]}
			}
			if len(fs) != 3 || fs[0] != "field" {
				return fail(l.line, "ghost: want 'ghost field (T).name type' or '... K -> V'")
			}
			i := strings.Index(fs[1], ").")
			if !strings.HasPrefix(fs[1], "(") || i < 0 {
				return fail(l.line, "ghost field: bad owner")
			}
			cs.Ghosts = append(cs.Ghosts, GhostField{Owner: fs[1][1:i], Name: fs[1][i+2:], Type: fs[2], Pkg: pkgPath})
		case "recv":
			// recv field (T).ch ensures expr
			fs := strings.SplitN(rest, " ", 4)
			if len(fs) < 4 || fs[0] != "field" || fs[2] != "ensures" {
				return fail(l.line, "recv: want 'recv field (T).ch ensures expr'")
			}
			i := strings.Index(fs[1], ").")
			if !strings.HasPrefix(fs[1], "(") || i < 0 {
				return fail(l.line, "recv: bad field")
			}
			c, err := mk("recv", fs[3])
			if err != nil {
				return err
			}
			cs.Recvs = append(cs.Recvs, &RecvInv{Owner: fs[1][1:i], Field: fs[1][i+2:], Pkg: pkgPath, Clause: c})
		case "lemma":
			// lemma <name> [mode bv] : [labels] expr   — a closed formula proved on its own (no code involved)
			i := strings.Index(rest, ":")
			if i < 0 {
				return fail(l.line, "lemma: want 'lemma name [mode bv] : expr'")
			}
			head := strings.Fields(rest[:i])
			if len(head) == 0 {
				return fail(l.line, "lemma: missing name")
			}
			lm := &Lemma{Name: head[0], Pkg: pkgPath}
			if len(head) == 3 && head[1] == "mode" && head[2] == "bv" {
				lm.Mode = ModeBV
			}
			c, err := mk("lemma", strings.TrimSpace(rest[i+1:]))
			if err != nil {
				return err
			}
			lm.Clause = c
			cs.Lemmas = append(cs.Lemmas, lm)
		case "axiom":
			c, err := mk("axiom", rest)
			if err != nil {
				return err
			}
			cs.Axioms = append(cs.Axioms, c)
		case "call":
			// call <name>#k invariant expr : invariant for an iterator-desugared call
			if cur == nil {
				return fail(l.line, "call outside func")
			}
			fs := strings.SplitN(rest, " ", 3)
			if len(fs) >= 3 && fs[1] == "witness" {
				i := strings.Index(fs[2], "=")
				if i < 0 {
					return fail(l.line, "call witness: missing =")
				}
				e, err := ParseExpr(fs[2][i+1:])
				if err != nil {
					return fail(l.line, "%v", err)
				}
				cur.CallWitness[fs[0]] = append(cur.CallWitness[fs[0]], LetDef{strings.TrimSpace(fs[2][:i]), e})
				continue
			}
			if len(fs) >= 3 && fs[1] == "preserves" {
				if cur.CallPreserves == nil {
					cur.CallPreserves = map[string][]string{}
				}
				for _, it := range splitTop(fs[2]) {
					if it = strings.TrimSpace(it); it != "" {
						cur.CallPreserves[fs[0]] = append(cur.CallPreserves[fs[0]], it)
					}
				}
				continue
			}
			if len(fs) >= 3 && fs[1] == "assume" {
				c, err := mk("assume", fs[2])
				if err != nil {
					return err
				}
				if cur.CallAssume == nil {
					cur.CallAssume = map[string][]*Clause{}
				}
				cur.CallAssume[fs[0]] = append(cur.CallAssume[fs[0]], c)
				continue
			}
			if len(fs) < 3 || (fs[1] != "invariant" && fs[1] != "assert") {
				return fail(l.line, "call: want 'call Name#k invariant|assert|witness expr'")
			}
			c, err := mk(fs[1], fs[2])
			if err != nil {
				return err
			}
			if fs[1] == "assert" {
				cur.CallAssert[fs[0]] = append(cur.CallAssert[fs[0]], c)
			} else {
				cur.CallInv[fs[0]] = append(cur.CallInv[fs[0]], c)
			}
		default:
			return fail(l.line, "unknown contract keyword %q", word)
		}
	}
	return nil
}

// splitTop splits on commas that are not nested in brackets.
func splitTop(s string) []string {
	var out []string
	depth := 0
	last := 0
	for i, c := range s {
		switch c {
		case '(', '[':
			depth++
		case ')', ']':
			depth--
		case ',':
			if depth == 0 {
				out = append(out, s[last:i])
				last = i + 1
			}
		}
	}
	out = append(out, s[last:])
	return out
}

func parseSpecFunc(rest string) (*SpecFunc, error) {
	sf := &SpecFunc{Text: rest}
	if strings.HasPrefix(rest, "opaque ") {
		sf.Opaque = true
		rest = strings.TrimSpace(rest[len("opaque "):])
	}
	if !strings.HasPrefix(rest, "func ") {
		return nil, fmt.Errorf("spec: expected 'func'")
	}
	rest = rest[5:]
	i := strings.Index(rest, "(")
	if i < 0 {
		return nil, fmt.Errorf("spec func: missing (")
	}
	sf.Name = strings.TrimSpace(rest[:i])
	// find matching )
	depth := 0
	j := i
	for ; j < len(rest); j++ {
		if rest[j] == '(' {
			depth++
		} else if rest[j] == ')' {
			depth--
			if depth == 0 {
				break
			}
		}
	}
	params := rest[i+1 : j]
	for _, p := range splitTop(params) {
		p = strings.TrimSpace(p)
		if p == "" {
			continue
		}
		fs := strings.Fields(p)
		if len(fs) != 2 {
			return nil, fmt.Errorf("spec func %s: bad parameter %q", sf.Name, p)
		}
		sf.Params = append(sf.Params, Binder{fs[0], fs[1]})
	}
	rest = strings.TrimSpace(rest[j+1:])
	k := strings.Index(rest, " = ")
	if k < 0 {
		return nil, fmt.Errorf("spec func %s: missing ' = '", sf.Name)
	}
	head := strings.TrimSpace(rest[:k])
	if i := strings.Index(head, " reads "); i >= 0 {
		for _, it := range splitTop(head[i+7:]) {
			sf.Reads = append(sf.Reads, strings.TrimSpace(it))
		}
		head = strings.TrimSpace(head[:i])
	}
	if strings.HasSuffix(head, " mode bv") {
		sf.Mode, sf.HasMode = ModeBV, true
		head = strings.TrimSpace(strings.TrimSuffix(head, " mode bv"))
	} else if strings.HasSuffix(head, " mode int") {
		sf.Mode, sf.HasMode = ModeInt, true
		head = strings.TrimSpace(strings.TrimSuffix(head, " mode int"))
	}
	sf.Result = head
	if strings.TrimSpace(rest[k+3:]) == "?" {
		// uninterpreted: a pure function of its arguments about which nothing else is known
		sf.Uninterp = true
		return sf, nil
	}
	e, err := ParseExpr(rest[k+3:])
	if err != nil {
		return nil, err
	}
	sf.Body = e
	return sf, nil
}

// LoadRepoContracts loads every verif_contracts*.go under root plus /verif/trusted/*.gvc.
func LoadAllContracts(repo string, trustedDir string) (*Contracts, error) {
	cs := NewContracts()
	err := filepath.Walk(repo, func(p string, info os.FileInfo, err error) error {
		if err != nil {
			return nil
		}
		if info.IsDir() && (info.Name() == ".git" || info.Name() == "vendor") {
			return filepath.SkipDir
		}
		if !info.IsDir() && strings.HasPrefix(info.Name(), "verif_contracts") && strings.HasSuffix(info.Name(), ".go") {
			rel, _ := filepath.Rel(repo, filepath.Dir(p))
			pkg := repoMod
			if rel != "." {
				pkg = repoMod + "/" + filepath.ToSlash(rel)
			}
			return cs.LoadContractFile(p, pkg)
		}
		return nil
	})
	if err != nil {
		return nil, err
	}
	tfs, _ := filepath.Glob(filepath.Join(trustedDir, "*.gvc"))
	for _, tf := range tfs {
		if err := cs.LoadContractFile(tf, "trusted"); err != nil {
			return nil, err
		}
	}
	return cs, nil
}
