package main

import (
	"fmt"
	"os"
	"go/token"
	"go/types"
	"sort"
	"strings"

	"golang.org/x/tools/go/ssa"
)

// EngineError is a failure of the engine itself (unsupported construct, bad contract):
// never a verdict about the code.
type EngineError struct{ Msg string }

func (e *EngineError) Error() string { return e.Msg }

func engineErr(format string, a ...interface{}) *EngineError {
	return &EngineError{fmt.Sprintf(format, a...)}
}

type Exec struct {
	u        *Unit
	prog     *Program
	cs       *Contracts
	topFC    *FuncContract
	topName  string
	frameSeq int
	entry    *State
	closures map[string]*Closure
	depth    int
	labels   []string // property labels of the function under verification (safety obligations)
	topFrame *Frame
	abstracted map[string]bool
	opaqueCalls map[string]bool
	quantDepth int
	calls    map[string]int // ordinal of calls by callee name (for call#k naming)
	witnesses []witness
	curTrail  []string
	callSeen  map[string]bool
	inlineLoopSeen map[string]bool // "callee.N": loop N of an inlined function was met
	topLets   map[string]Val
	curTag    string
	atTags    map[string]bool
	counting  bool // called()/spawned() counters are in use
	curSite   ssa.Instruction
	curCallFrame *Frame
	curCallArgs  []Val
	siteTags  map[ssa.Instruction]string // call tags of the function under verification, numbered in source order
	loopEff   map[string]*loopEffects
	topTargetsDone  bool
	topTargetsCache []modTarget
	topTargetsAll   bool
	compInt   map[string]intInfo
}

type witness struct {
	Name string
	V    Val
}

type ret struct {
	st   *State
	vals []Val
	pos  token.Pos
}

type Frame struct {
	id     int
	fn     *ssa.Function
	regs   map[ssa.Value]Val
	fc     *FuncContract
	entry  *State
	rets   []ret
	top    bool
	allocN map[string]int
	localKeys map[string][]string // source name -> state var keys (in order of allocation)
	paramVals map[string]Val // entry values
	defers []*deferRec
	parent *Frame
	cells  []frameCell // heap cells holding this frame's captured local variables
	ranks  map[*ssa.Alloc]int
}

// frameCell: a local variable that lives in a heap cell because a closure captures it.
type frameCell struct {
	ref   Term
	t     types.Type
	alloc *ssa.Alloc
}

type deferRec struct {
	instr *ssa.Defer
	flag  string // state var key holding the "was deferred" Bool
	call  ssa.CallCommon
}

func (x *Exec) newFrame(fn *ssa.Function, parent *Frame) *Frame {
	x.frameSeq++
	fr := &Frame{id: x.frameSeq, fn: fn, regs: map[ssa.Value]Val{}, allocN: map[string]int{}, localKeys: map[string][]string{}, paramVals: map[string]Val{}, parent: parent}
	fr.fc = x.cs.Funcs[fn.String()]
	return fr
}

// allocRank numbers the stack locals of a function that share a source name by source position (1-based) and
// fills localKeys accordingly, once per frame.
func (fr *Frame) allocRank(a *ssa.Alloc) int {
	if fr.ranks == nil {
		fr.ranks = map[*ssa.Alloc]int{}
		byName := map[string][]*ssa.Alloc{}
		seq := map[*ssa.Alloc]int{}
		n := 0
		for _, b := range fr.fn.Blocks {
			for _, ins := range b.Instrs {
				if al, ok := ins.(*ssa.Alloc); ok && !al.Heap {
					if _, isArr := al.Type().Underlying().(*types.Pointer).Elem().Underlying().(*types.Array); isArr {
						continue
					}
					name := al.Comment
					if name == "" {
						name = al.Name()
					}
					n++
					seq[al] = n
					byName[name] = append(byName[name], al)
				}
			}
		}
		for name, as := range byName {
			sort.SliceStable(as, func(i, j int) bool {
				if as[i].Pos() != as[j].Pos() && as[i].Pos().IsValid() && as[j].Pos().IsValid() {
					return as[i].Pos() < as[j].Pos()
				}
				return seq[as[i]] < seq[as[j]]
			})
			keys := make([]string, len(as))
			for i, al := range as {
				fr.ranks[al] = i + 1
				keys[i] = fmt.Sprintf("f%d.%s", fr.id, name)
				if i > 0 {
					keys[i] = fmt.Sprintf("f%d.%s#%d", fr.id, name, i+1)
				}
			}
			fr.localKeys[name] = keys
		}
	}
	return fr.ranks[a]
}

// counterInLoop: can the path counter k ("calls.<tag>" / "go.count") change inside loop li of frame fr? Counters
// belong to the call sites of the function under verification itself; loops of inlined callees never touch them.
func (x *Exec) counterInLoop(fr *Frame, li *loopInfo, k string) bool {
	if !fr.top {
		return false
	}
	for b := range li.body {
		for _, ins := range b.Instrs {
			if k == "go.count" {
				if _, ok := ins.(*ssa.Go); ok {
					return true
				}
				continue
			}
			if t, ok := x.siteTags[ins]; ok && "calls."+t == k {
				return true
			}
		}
	}
	return false
}

// mapRangeKeys: the state-variable keys of the "visited" sets of the function's range-over-map loops, in source order.
func (fr *Frame) mapRangeKeys() []string {
	type rk struct {
		pos token.Pos
		seq int
		key string
	}
	var rs []rk
	n := 0
	for _, b := range fr.fn.Blocks {
		for _, ins := range b.Instrs {
			if r, ok := ins.(*ssa.Range); ok {
				if _, isMap := r.X.Type().Underlying().(*types.Map); isMap {
					n++
					rs = append(rs, rk{r.Pos(), n, fmt.Sprintf("f%d.range.%s.visited", fr.id, r.Name())})
				}
			}
		}
	}
	sort.SliceStable(rs, func(i, j int) bool {
		if rs[i].pos != rs[j].pos && rs[i].pos.IsValid() && rs[j].pos.IsValid() {
			return rs[i].pos < rs[j].pos
		}
		return rs[i].seq < rs[j].seq
	})
	out := make([]string, len(rs))
	for i, r := range rs {
		out[i] = r.key
	}
	return out
}

// allocByKey finds the stack local behind a state variable key (see allocRank).
func (fr *Frame) allocByKey(key string) *ssa.Alloc {
	if fr.ranks == nil {
		return nil
	}
	for al, r := range fr.ranks {
		name := al.Comment
		if name == "" {
			name = al.Name()
		}
		k := fmt.Sprintf("f%d.%s", fr.id, name)
		if r > 1 {
			k = fmt.Sprintf("f%d.%s#%d", fr.id, name, r)
		}
		if k == key {
			return al
		}
	}
	return nil
}

// staleClause: a contract clause that cannot be evaluated on the current code because it names something the code
// no longer has (a local, a field, a call site): the code drifted away from its contract. That is reported as a
// failing obligation of that clause (a verdict the check turns into a VIOLATION), not as an engine error.
func (x *Exec) staleClause(err error) bool {
	if err == nil {
		return false
	}
	m := err.Error()
	return strings.Contains(m, "unknown identifier") || strings.Contains(m, "no field") || strings.Contains(m, "no such call site") || strings.Contains(m, "has no field") || strings.Contains(m, "unknown field")
}

func (x *Exec) staleObligation(kind string, pos token.Pos, labels []string, text string, pc Term, err error) {
	x.u.AddObligation(x.topName, kind, pos, labels, text+"   [cannot be evaluated on the current code: "+err.Error()+"]", pc, False)
}

func (x *Exec) fnShort(fn *ssa.Function) string {
	s := fn.String()
	s = strings.ReplaceAll(s, repoMod+"/", "")
	s = strings.ReplaceAll(s, repoMod, "gmqtt")
	return s
}

// ---------------------------------------------------------------------------
// CFG helpers

type loopInfo struct {
	head    *ssa.BasicBlock
	body    map[*ssa.BasicBlock]bool
	ordinal int
}

func isBackEdge(from, to *ssa.BasicBlock) bool { return to.Dominates(from) }

func rpo(fn *ssa.Function) []*ssa.BasicBlock {
	seen := map[*ssa.BasicBlock]bool{}
	var post []*ssa.BasicBlock
	var dfs func(b *ssa.BasicBlock)
	dfs = func(b *ssa.BasicBlock) {
		seen[b] = true
		for _, s := range b.Succs {
			if !seen[s] {
				dfs(s)
			}
		}
		post = append(post, b)
	}
	dfs(fn.Blocks[0])
	for i, j := 0, len(post)-1; i < j; i, j = i+1, j-1 {
		post[i], post[j] = post[j], post[i]
	}
	// A plain DFS reverse post-order can place a loop-exit block before blocks of the loop body
	// only if edges are irreducible; for reducible CFGs it is a valid topological order of the
	// forward edges.
	return post
}

func findLoops(fn *ssa.Function) map[*ssa.BasicBlock]*loopInfo {
	loops := map[*ssa.BasicBlock]*loopInfo{}
	for _, b := range fn.Blocks {
		for _, s := range b.Succs {
			if isBackEdge(b, s) {
				li := loops[s]
				if li == nil {
					li = &loopInfo{head: s, body: map[*ssa.BasicBlock]bool{s: true}}
					loops[s] = li
				}
				// natural loop: nodes reaching b without passing through s
				var stack []*ssa.BasicBlock
				if !li.body[b] {
					li.body[b] = true
					stack = append(stack, b)
				}
				for len(stack) > 0 {
					n := stack[len(stack)-1]
					stack = stack[:len(stack)-1]
					for _, p := range n.Preds {
						if !li.body[p] {
							li.body[p] = true
							stack = append(stack, p)
						}
					}
				}
			}
		}
	}
	// ordinals: by source position of the head's first positioned instruction, fallback block index
	var heads []*ssa.BasicBlock
	for h := range loops {
		heads = append(heads, h)
	}
	sort.Slice(heads, func(i, j int) bool { return heads[i].Index < heads[j].Index })
	for i, h := range heads {
		loops[h].ordinal = i + 1
	}
	return loops
}

// ---------------------------------------------------------------------------
// running a function body

type edgeState struct {
	from *ssa.BasicBlock
	st   *State
}

// runBody symbolically executes fn from state st (parameters already bound in fr.regs).
// It returns through fr.rets.
func (x *Exec) runBody(fr *Frame, st *State) error {
	fn := fr.fn
	if fn.Blocks == nil {
		return engineErr("%s: no body", fn)
	}
	x.depth++
	defer func() { x.depth-- }()
	if x.depth > 12 {
		return engineErr("%s: inline depth exceeded (recursion?)", fn)
	}
	order := rpo(fn)
	loops := findLoops(fn)
	in := map[*ssa.BasicBlock][]edgeState{}
	if err := x.registerDefers(fr, st, loops); err != nil {
		return err
	}
	in[fn.Blocks[0]] = []edgeState{{nil, st}}
	for _, b := range order {
		if fn.Recover != nil && b == fn.Recover {
			continue
		}
		inc := in[b]
		if len(inc) == 0 {
			continue
		}
		var cur *State
		li := loops[b]
		// bind phis per edge (phi values become state variables)
		var phis []*ssa.Phi
		for _, ins := range b.Instrs {
			if p, ok := ins.(*ssa.Phi); ok {
				phis = append(phis, p)
			} else {
				break
			}
		}
		bindPhis := func(es edgeState) (*State, error) {
			if len(phis) == 0 || es.from == nil {
				return es.st, nil
			}
			s2 := es.st.Clone()
			pi := -1
			for i, p := range b.Preds {
				if p == es.from {
					pi = i
				}
			}
			for _, p := range phis {
				v, err := x.val(fr, s2, p.Edges[pi])
				if err != nil {
					return nil, err
				}
				s2.Vars[x.phiKey(fr, p)] = v
			}
			return s2, nil
		}
		var sts []*State
		for _, es := range inc {
			s2, err := bindPhis(es)
			if err != nil {
				return err
			}
			sts = append(sts, s2)
		}
		label := fmt.Sprintf("b%d.f%d", b.Index, fr.id)
		cur = x.u.MergeStates(sts, label)
		if li != nil {
			var err error
			cur, err = x.loopHead(fr, li, cur)
			if err != nil {
				return err
			}
		}
		for _, p := range phis {
			fr.regs[p] = cur.Vars[x.phiKey(fr, p)]
		}
		// execute
		for _, ins := range b.Instrs {
			if _, ok := ins.(*ssa.Phi); ok {
				continue
			}
			if cur.PC.IsFalse() {
				break
			}
			switch t := ins.(type) {
			case *ssa.If:
				cv, err := x.val(fr, cur, t.Cond)
				if err != nil {
					return err
				}
				c := cv.One()
				st1 := cur.Clone()
				st1.PC = x.u.Define(label+".t", And(cur.PC, c))
				st2 := cur.Clone()
				st2.PC = x.u.Define(label+".f", And(cur.PC, Not(c)))
				if err := x.edge(fr, loops, in, b, b.Succs[0], st1); err != nil {
					return err
				}
				if err := x.edge(fr, loops, in, b, b.Succs[1], st2); err != nil {
					return err
				}
			case *ssa.Jump:
				if err := x.edge(fr, loops, in, b, b.Succs[0], cur); err != nil {
					return err
				}
			case *ssa.Return:
				var vals []Val
				for _, r := range t.Results {
					v, err := x.val(fr, cur, r)
					if err != nil {
						return err
					}
					vals = append(vals, v)
				}
				fr.rets = append(fr.rets, ret{cur, vals, t.Pos()})
			case *ssa.Panic:
				if !x.waived("panic") {
					x.u.AddObligation(x.topName, "panic", t.Pos(), x.labels, "explicit panic unreachable", cur.PC, False)
				}
			default:
				if err := x.instr(fr, cur, ins); err != nil {
					return err
				}
			}
		}
	}
	return nil
}

func (x *Exec) phiKey(fr *Frame, p *ssa.Phi) string {
	return fmt.Sprintf("f%d.phi.%s", fr.id, p.Name())
}

// edge delivers a state along from->to; back edges discharge invariant preservation.
func (x *Exec) edge(fr *Frame, loops map[*ssa.BasicBlock]*loopInfo, in map[*ssa.BasicBlock][]edgeState, from, to *ssa.BasicBlock, st *State) error {
	if st.PC.IsFalse() {
		return nil
	}
	if isBackEdge(from, to) {
		li := loops[to]
		// bind phis for the back edge
		s2 := st.Clone()
		pi := -1
		for i, p := range to.Preds {
			if p == from {
				pi = i
			}
		}
		for _, ins := range to.Instrs {
			p, ok := ins.(*ssa.Phi)
			if !ok {
				break
			}
			v, err := x.val(fr, s2, p.Edges[pi])
			if err != nil {
				return err
			}
			s2.Vars[x.phiKey(fr, p)] = v
		}
		return x.loopBack(fr, li, s2)
	}
	in[to] = append(in[to], edgeState{from, st})
	return nil
}

func (x *Exec) waived(kind string) bool {
	return x.topFC != nil && x.topFC.Waive[kind]
}

// ---------------------------------------------------------------------------
// loops

type loopEffects struct {
	locals map[string]bool // state var keys
	comps  map[string]Sort // full heap component names
	all    bool
	ghosts bool
	acquires bool // the blocks (re)acquire a monitor lock
	ghostAll bool // some call's effect on ghost fields could not be resolved: every ghost field may change
	why    []string
}

func (e *loopEffects) add(ts []modTarget) {
	for _, t := range ts {
		if t.GhostVar != "" {
			e.ghosts = true
			continue
		}
		if t.All {
			e.all = true
			continue
		}
		e.comps[t.Comp] = t.So
	}
}

func (x *Exec) loopClauses(fr *Frame, li *loopInfo) []*Clause {
	var cs []*Clause
	if fr.fc != nil {
		cs = fr.fc.Loops[li.ordinal]
	}
	if !fr.top {
		// clauses the function under verification states for the loops of a function inlined into it
		t := fr
		for t.parent != nil {
			t = t.parent
		}
		if t.fc != nil && t.fc.InlineLoops != nil {
			x.inlineLoopSeen[fmt.Sprintf("%s.%d", fr.fn.Name(), li.ordinal)] = true
			if m := t.fc.InlineLoops[fr.fn.Name()]; m != nil {
				cs = append(append([]*Clause(nil), cs...), m[li.ordinal]...)
			}
		}
	}
	return cs
}

func (x *Exec) loopHead(fr *Frame, li *loopInfo, pre *State) (*State, error) {
	clauses := x.loopClauses(fr, li)
	fname := x.fnShort(fr.fn)
	var invs []*Clause
	for _, c := range clauses {
		if c.Kind == "invariant" {
			invs = append(invs, c)
		}
	}
	// entry obligations
	for ci, c := range invs {
		env := x.envFor(fr, pre, fr.entry)
		env.loop = li
		g, err := env.Bool(c.E)
		if err != nil {
			if x.staleClause(err) {
				x.staleObligation(fmt.Sprintf("inv-entry.%sL%d.c%d", x.inlineTag(fr), li.ordinal, ci+1), li.head.Instrs[0].Pos(), x.lab(c.Labels), c.Text, pre.PC, err)
				continue
			}
			return nil, engineErr("%s loop %d invariant %q: %v", fname, li.ordinal, c.Text, err)
		}
		o := x.u.AddObligation(x.topName, fmt.Sprintf("inv-entry.%sL%d.c%d", x.inlineTag(fr), li.ordinal, ci+1), li.head.Instrs[0].Pos(), x.lab(c.Labels), c.Text, pre.PC, g)
		o.Func = fname
	}
	// havoc
	eff := x.effectsOfBlocks(fr, li.body)
	h := pre.Clone()
	var h2 *State
	loopAlloc := x.u.Fresh("alloc", SInt)
	x.u.Assume(Ge(loopAlloc, pre.Alloc))
	x.u.havocAlloc = loopAlloc
	defer func() { x.u.havocAlloc = Term{} }()
	if eff.all {
		if os.Getenv("GVC_DEBUG") != "" {
			fmt.Fprintf(os.Stderr, "loop %d of %s: full havoc because %v\n", li.ordinal, fname, eff.why)
		}
		keep := map[string]Term{}
		for k, v := range h.Heap {
			if strings.HasPrefix(k, "GF$") {
				// ghost fields change only through the modifies clauses of contracts: those a contract used in
				// the loop names are havocked (by name), the others keep their value
				if _, mod := eff.comps[k]; mod || eff.ghostAll {
					keep[k] = x.u.Fresh(k+".havoc", v.So)
				} else {
					keep[k] = v
				}
			}
		}
		h.Heap = keep
		h.Epoch = x.nextEpoch()
		h.Mix = nil
		h.Ghost = map[string]Term{}
		for k, t := range pre.Ghost {
			// path counters (called(), spawned()) exist on every path; after an unknown number of iterations their
			// value is unknown
			if strings.HasPrefix(k, "calls.") || k == "go.count" {
				if x.counterInLoop(fr, li, k) {
					h.Ghost[k] = x.u.Fresh("ghost$"+k+".havoc", t.So)
				} else {
					h.Ghost[k] = t
				}
			}
		}
		// the allocation counter only grows
		h.Alloc = loopAlloc
		x.u.epochAlloc[h.Epoch] = loopAlloc
	} else {
		var names []string
		for c := range eff.comps {
			names = append(names, c)
		}
		sort.Strings(names)
		for _, c := range names {
			h.Heap[c] = x.u.Fresh(c+".havoc", eff.comps[c])
		}
		if eff.ghosts {
			for k, t := range pre.Ghost {
				if (strings.HasPrefix(k, "calls.") || k == "go.count") && !x.counterInLoop(fr, li, k) {
					continue // a path counter of a call site outside this loop keeps its value
				}
				h.Ghost[k] = x.u.Fresh("ghost$"+k+".havoc", t.So)
			}
		}
		h.Alloc = loopAlloc
	}
	for k := range eff.locals {
		if v, ok := h.Vars[k]; ok {
			if v.P != nil || v.F != nil {
				return nil, engineErr("%s loop %d: engine-level pointer/closure variable %s assigned inside a loop", fname, li.ordinal, k)
			}
			if v.T == nil {
				// engine-level value without a Go type (the "visited" set of a range over a map)
				nv := Val{S: make([]Term, len(v.S))}
				for i := range v.S {
					nv.S[i] = x.u.Fresh(k+".havoc", v.S[i].So)
				}
				h.Vars[k] = nv
				continue
			}
			h.Vars[k] = x.u.FreshVal(k+".havoc", v.T)
			x.u.assumeValExisting(h, h.Vars[k])
		}
	}
	for _, ins := range li.head.Instrs {
		p, ok := ins.(*ssa.Phi)
		if !ok {
			break
		}
		k := x.phiKey(fr, p)
		if v, ok := h.Vars[k]; ok && v.P == nil && v.F == nil {
			h.Vars[k] = x.u.FreshVal(k+".havoc", v.T)
		}
	}
	// implicit invariant of compiler-generated range-over-slice loops: -1 <= rangeindex < len
	rangeInv := func(s *State) (Term, bool) { return x.rangeIndexInv(fr, li, s) }
	if g, ok := rangeInv(pre); ok {
		o := x.u.AddObligation(x.topName, fmt.Sprintf("inv-entry.%sL%d.range", x.inlineTag(fr), li.ordinal), li.head.Instrs[0].Pos(), x.labels, "-1 <= rangeindex < len (implicit)", pre.PC, g)
		o.Func = fname
	}
	defer func() {
		if h2 != nil {
			if g, ok := rangeInv(h2); ok {
				x.u.Assume(Implies(h2.PC, g))
			}
		}
	}()
	// implicit invariant: the heap differs from the entry heap only where the modifies clause allows
	// (after a full havoc only ghost fields keep a frame: ordinary components are unknown anyway)
	if err := x.frameInvariant(fr, li, pre, h, eff, true); err != nil {
		return nil, err
	}
	// assume invariants
	for _, c := range invs {
		env := x.envFor(fr, h, fr.entry)
		env.loop = li
		g, err := env.Bool(c.E)
		if err != nil {
			if x.staleClause(err) {
				continue // reported at loop entry; nothing is assumed from a clause that cannot be evaluated
			}
			return nil, engineErr("%s loop %d invariant %q: %v", fname, li.ordinal, c.Text, err)
		}
		x.u.Assume(Implies(h.PC, g))
	}
	if len(invs) == 0 {
		x.u.Trust(fmt.Sprintf("loop %d of %s has no invariant: only facts about state the loop does not modify survive it", li.ordinal, fname))
	}
	h2 = h
	h.Snap["iter"] = nil
	delete(h.Snap, "iter")
	h.Snap["iter"] = h.Clone() // at(iter, e): e at the start of the current iteration of the innermost loop
	if fr.top {
		// at(iterN, e): e at the start of the current iteration of loop N (survives inner loops)
		lab := fmt.Sprintf("iter%d", li.ordinal)
		delete(h.Snap, lab)
		h.Snap[lab] = h.Snap["iter"]
	}
	if eff.acquires {
		// the loop only waits on the monitor: "the state when the lock was last acquired" is the head state
		h.Snap["lock"] = h.Clone()
	}
	x.loopEff[fmt.Sprintf("f%d.L%d", fr.id, li.ordinal)] = eff
	// remember variant value at head
	for _, c := range clauses {
		if c.Kind == "decreases" {
			env := x.envFor(fr, h, fr.entry)
			v, err := env.Eval(c.E)
			if err != nil {
				return nil, engineErr("%s loop %d decreases: %v", fname, li.ordinal, err)
			}
			h.Ghost[fmt.Sprintf("variant.f%d.L%d", fr.id, li.ordinal)] = v.One()
		}
	}
	return h, nil
}

// rangeIndexInv recognises the loop head go/ssa generates for "for i, v := range slice" in naive form
// (t = *rangeindex; t' = t + 1; *rangeindex = t'; if t' < len ...) and returns -1 <= rangeindex < max(len,0)-ish.
func (x *Exec) rangeIndexInv(fr *Frame, li *loopInfo, s *State) (Term, bool) {
	if li.head.Comment != "rangeindex.loop" {
		return Term{}, false
	}
	var idxAlloc *ssa.Alloc
	var lenVal ssa.Value
	for _, ins := range li.head.Instrs {
		switch t := ins.(type) {
		case *ssa.UnOp:
			if a, ok := t.X.(*ssa.Alloc); ok && a.Comment == "rangeindex" {
				idxAlloc = a
			}
		case *ssa.BinOp:
			if t.Op == token.LSS {
				lenVal = t.Y
			}
		}
	}
	if idxAlloc == nil || lenVal == nil {
		return Term{}, false
	}
	pv, ok := fr.regs[idxAlloc]
	if !ok || pv.P == nil {
		return Term{}, false
	}
	lv, ok := fr.regs[lenVal]
	if !ok {
		if c, isC := lenVal.(*ssa.Const); isC {
			cv, err := x.constVal(c)
			if err != nil {
				return Term{}, false
			}
			lv = cv
		} else {
			return Term{}, false
		}
	}
	ri := x.u.LoadPtr(s, pv.P, types.Typ[types.Int]).One()
	u := x.u
	return And(u.ILe(u.IntC(-1), ri), Or(u.ILt(ri, lv.One()), Eq(ri, u.IntC(-1)))), true
}

func (x *Exec) loopBack(fr *Frame, li *loopInfo, st *State) error {
	fname := x.fnShort(fr.fn)
	if g, ok := x.rangeIndexInv(fr, li, st); ok {
		o := x.u.AddObligation(x.topName, fmt.Sprintf("inv-preserved.%sL%d.range", x.inlineTag(fr), li.ordinal), li.head.Instrs[0].Pos(), x.labels, "-1 <= rangeindex < len (implicit)", st.PC, g)
		o.Func = fname
	}
	if eff := x.loopEff[fmt.Sprintf("f%d.L%d", fr.id, li.ordinal)]; eff != nil {
		if err := x.frameInvariant(fr, li, st, nil, eff, false); err != nil {
			return err
		}
	}
	for ci, c := range x.loopClauses(fr, li) {
		env := x.envFor(fr, st, fr.entry)
		env.loop = li
		switch c.Kind {
		case "invariant":
			g, err := env.Bool(c.E)
			if err != nil {
				if x.staleClause(err) {
					x.staleObligation(fmt.Sprintf("inv-preserved.%sL%d.c%d", x.inlineTag(fr), li.ordinal, ci+1), li.head.Instrs[0].Pos(), x.lab(c.Labels), c.Text, st.PC, err)
					continue
				}
				return engineErr("%s loop %d invariant %q: %v", fname, li.ordinal, c.Text, err)
			}
			o := x.u.AddObligation(x.topName, fmt.Sprintf("inv-preserved.%sL%d.c%d", x.inlineTag(fr), li.ordinal, ci+1), li.head.Instrs[0].Pos(), x.lab(c.Labels), c.Text, st.PC, g)
			o.Func = fname
		case "step":
			// "loop N step e": e holds at the end of every iteration (checked at each back edge, never assumed);
			// at(iter, x) in e is x at the start of the iteration
			g, err := env.Bool(c.E)
			if err != nil {
				if x.staleClause(err) {
					x.staleObligation(fmt.Sprintf("step.%sL%d.c%d", x.inlineTag(fr), li.ordinal, ci+1), li.head.Instrs[0].Pos(), x.lab(c.Labels), c.Text, st.PC, err)
					continue
				}
				return engineErr("%s loop %d step %q: %v", fname, li.ordinal, c.Text, err)
			}
			o := x.u.AddObligation(x.topName, fmt.Sprintf("step.%sL%d.c%d", x.inlineTag(fr), li.ordinal, ci+1), li.head.Instrs[0].Pos(), x.lab(c.Labels), c.Text, st.PC, g)
			o.Func = fname
		case "decreases":
			v, err := env.Eval(c.E)
			if err != nil {
				return engineErr("%s loop %d decreases: %v", fname, li.ordinal, err)
			}
			old := st.Ghost[fmt.Sprintf("variant.f%d.L%d", fr.id, li.ordinal)]
			ii := intInfo{64, true}
			g := And(x.u.Cmp(token.LSS, v.One(), old, ii), x.u.Cmp(token.GEQ, old, x.u.zeroLike(old), ii))
			o := x.u.AddObligation(x.topName, fmt.Sprintf("decreases.%sL%d.c%d", x.inlineTag(fr), li.ordinal, ci+1), li.head.Instrs[0].Pos(), x.lab(c.Labels), c.Text, st.PC, g)
			o.Func = fname
		}
	}
	return nil
}

// frameInvariant treats the function's modifies clause as an implicit invariant of every loop:
// for each heap component the loop may write, objects that existed at function entry and are not named by
// the modifies clause keep their entry value. atHead: check it for the state entering the loop (pre) and
// assume it for the havocked head state (h); otherwise check it for the state at a back edge (pre).
func (x *Exec) frameInvariant(fr *Frame, li *loopInfo, pre *State, h *State, eff *loopEffects, atHead bool) error {
	u := x.u
	top := x.topFrame
	if top == nil || top.entry == nil || x.topFC == nil || x.waived("frame") {
		return nil
	}
	targets, all, err := x.topTargets()
	if err != nil {
		return err
	}
	var names []string
	for c := range eff.comps {
		names = append(names, c)
	}
	sort.Strings(names)
	for _, name := range names {
		so := eff.comps[name]
		if !so.IsArray() || strings.HasPrefix(name, "G$") {
			continue
		}
		if (all || eff.all) && !strings.HasPrefix(name, "GF$") {
			// "modifies heap" / a loop that havocs the whole heap: only ghost fields keep a frame
			continue
		}
		var mine []modTarget
		whole := false
		for _, t := range targets {
			if t.Comp == name {
				if t.Ref == nil {
					whole = true
				}
				mine = append(mine, t)
			}
		}
		if whole {
			continue
		}
		ent := u.comp(top.entry, name, so)
		cond := func(cur Term, r Term) Term {
			var nt []Term
			for _, t := range mine {
				nt = append(nt, Neq(r, *t.Ref))
			}
			return Implies(And(append(nt, Le(App("root", SInt, r), top.entry.Alloc))...), Eq(Select(cur, r), Select(ent, r)))
		}
		cur := u.comp(pre, name, so)
		if cur.S != ent.S {
			sk := u.Fresh("frame.r", SInt)
			kind := fmt.Sprintf("frame-inv-preserved.%sL%d.%s", x.inlineTag(fr), li.ordinal, name)
			if atHead {
				kind = fmt.Sprintf("frame-inv-entry.%sL%d.%s", x.inlineTag(fr), li.ordinal, name)
			}
			u.AddObligation(x.topName, kind, li.head.Instrs[0].Pos(), x.labels, name+" changes only where modifies allows (implicit loop invariant)", pre.PC, cond(cur, sk))
		}
		if atHead {
			hc := u.comp(h, name, so)
			q := Term{"qr", SInt}
			u.Assume(Term{fmt.Sprintf("(forall ((qr Int)) (! %s :pattern ((select %s qr))))", cond(hc, q).S, hc.S), SBool})
		}
	}
	return nil
}

// topTargets evaluates the modifies clause of the function under verification in its entry state.
func (x *Exec) topTargets() ([]modTarget, bool, error) {
	if x.topTargetsDone {
		return x.topTargetsCache, x.topTargetsAll, nil
	}
	fr := x.topFrame
	eenv := x.envFor(fr, fr.entry, fr.entry)
	for k, v := range fr.paramVals {
		eenv.names[k] = v
	}
	if err := eenv.bindLets(x.topFC); err != nil {
		return nil, false, engineErr("%s: %v", x.topName, err)
	}
	var targets []modTarget
	all := false
	for _, it := range x.topFC.Modifies {
		ts, err := x.modTargets(eenv, it)
		if err != nil {
			return nil, false, engineErr("%s modifies %q: %v", x.topName, it, err)
		}
		for _, t := range ts {
			if t.All {
				all = true
			}
		}
		targets = append(targets, ts...)
	}
	x.topTargetsDone, x.topTargetsCache, x.topTargetsAll = true, targets, all
	return targets, all, nil
}

func (u *Unit) zeroLike(t Term) Term {
	if t.So.IsBV() {
		return BVLit(bigZero, t.So.BVWidth())
	}
	return IntLit(0)
}

var epochCounter int

func (x *Exec) nextEpoch() int {
	epochCounter++
	return epochCounter
}

// inlineTag distinguishes loops of inlined callees from those of the function under verification.
func (x *Exec) inlineTag(fr *Frame) string {
	if fr.top {
		return ""
	}
	return fr.fn.Name() + "."
}

func (x *Exec) lab(l []string) []string {
	if len(l) > 0 {
		return l
	}
	return x.labels
}

// effectsOfBlocks over-approximates what a set of blocks may write.
func (x *Exec) effectsOfBlocks(fr *Frame, blocks map[*ssa.BasicBlock]bool) *loopEffects {
	eff := &loopEffects{locals: map[string]bool{}, comps: map[string]Sort{}}
	visited := map[*ssa.Function]bool{fr.fn: true}
	for b := range blocks {
		for _, ins := range b.Instrs {
			x.effectsOfInstr(fr, ins, eff, visited, true)
		}
	}
	return eff
}

func (x *Exec) effectsOfFunc(fn *ssa.Function, eff *loopEffects, visited map[*ssa.Function]bool) {
	if visited[fn] {
		return
	}
	visited[fn] = true
	if fn.Blocks == nil {
		eff.why = append(eff.why, "exec.go:753")
		eff.all = true
		return
	}
	for _, b := range fn.Blocks {
		for _, ins := range b.Instrs {
			x.effectsOfInstr(nil, ins, eff, visited, false)
		}
	}
}

func (x *Exec) effectsOfInstr(fr *Frame, ins ssa.Instruction, eff *loopEffects, visited map[*ssa.Function]bool, top bool) {
	switch t := ins.(type) {
	case *ssa.Store:
		x.effectsOfAddr(fr, t.Addr, eff, top)
	case *ssa.MapUpdate:
		eff.add(x.mapTargets(t.Map.Type().Underlying().(*types.Map), nil))
	case *ssa.Alloc:
		if t.Heap {
			et := t.Type().Underlying().(*types.Pointer).Elem()
			switch classify(et) {
			case KStruct:
				eff.add(x.structTargets(et, nil))
			case KOpaque:
			case KArray:
				eff.add(x.elemTargets(et.Underlying().(*types.Array).Elem(), nil))
			default:
				eff.add(x.cellTargets(et, nil))
			}
		}
	case *ssa.MakeSlice:
		eff.add(x.elemTargets(t.Type().Underlying().(*types.Slice).Elem(), nil))
	case *ssa.MakeMap:
		eff.add(x.mapTargets(t.Type().Underlying().(*types.Map), nil))
	case *ssa.Convert:
		if sl, ok := t.Type().Underlying().(*types.Slice); ok {
			eff.add(x.elemTargets(sl.Elem(), nil))
		}
	case *ssa.Send:
		for _, mt := range chanLogTargets() {
			eff.comps[mt.Comp] = mt.So
		}
	case *ssa.Select:
		for _, sc := range t.States {
			if sc.Dir == types.SendOnly {
				for _, mt := range chanLogTargets() {
					eff.comps[mt.Comp] = mt.So
				}
			}
		}
	case *ssa.Next:
		if top && fr != nil {
			rng := t.Iter.(*ssa.Range)
			eff.locals[fmt.Sprintf("f%d.range.%s.visited", fr.id, rng.Name())] = true
			eff.locals[fmt.Sprintf("f%d.range.%s.pos", fr.id, rng.Name())] = true
		}
	case ssa.CallInstruction:
		if x.counting {
			eff.ghosts = true
		}
		x.effectsOfCall(fr, t, eff, visited, top)
	}
}

func (x *Exec) effectsOfAddr(fr *Frame, addr ssa.Value, eff *loopEffects, top bool) {
	switch a := addr.(type) {
	case *ssa.Alloc:
		et := a.Type().Underlying().(*types.Pointer).Elem()
		if a.Heap {
			if classify(et) == KStruct {
				eff.add(x.structTargets(et, nil))
			} else {
				eff.add(x.cellTargets(et, nil))
			}
			return
		}
		if top && fr != nil {
			if k, ok := x.allocKeyIfKnown(fr, a); ok {
				eff.locals[k] = true
			}
		}
	case *ssa.FieldAddr:
		st := a.X.Type().Underlying().(*types.Pointer).Elem()
		if root, ok := rootAlloc(a.X); ok && !root.Heap {
			if _, isArr := root.Type().Underlying().(*types.Pointer).Elem().Underlying().(*types.Array); !isArr {
				if top && fr != nil {
					if k, ok := x.allocKeyIfKnown(fr, root); ok {
						eff.locals[k] = true
					}
				}
				return
			}
		}
		eff.add(x.fieldTargets(st, a.Field, nil))
	case *ssa.IndexAddr:
		var et types.Type
		switch tt := a.X.Type().Underlying().(type) {
		case *types.Slice:
			et = tt.Elem()
		case *types.Pointer:
			et = tt.Elem().Underlying().(*types.Array).Elem()
		}
		if et != nil {
			eff.add(x.elemTargets(et, nil))
		}
	case *ssa.Global:
		et := a.Type().Underlying().(*types.Pointer).Elem()
		for _, sl := range x.u.Layout(et) {
			eff.comps[globalComp(a.Pkg.Pkg.Path()+"."+a.Name(), sl.Suffix)] = sl.So
		}
	default:
		pt, ok := addr.Type().Underlying().(*types.Pointer)
		if !ok {
			eff.why = append(eff.why, "exec.go:854")
			eff.all = true
			return
		}
		if classify(pt.Elem()) == KStruct {
			eff.add(x.structTargets(pt.Elem(), nil))
		} else {
			// a computed pointer to a scalar may designate a cell or a field: be conservative
			eff.why = append(eff.why, "exec.go:861")
			eff.all = true
		}
	}
}

func rootAlloc(v ssa.Value) (*ssa.Alloc, bool) {
	for {
		switch a := v.(type) {
		case *ssa.Alloc:
			return a, true
		case *ssa.FieldAddr:
			v = a.X
		case *ssa.IndexAddr:
			if _, ok := a.X.Type().Underlying().(*types.Pointer); ok {
				v = a.X
				continue
			}
			return nil, false
		default:
			return nil, false
		}
	}
}

func (x *Exec) allocKeyIfKnown(fr *Frame, a *ssa.Alloc) (string, bool) {
	if v, ok := fr.regs[a]; ok && v.P != nil && len(v.P.Alts) == 1 && v.P.Alts[0].A.Kind == ALocal {
		return v.P.Alts[0].A.Var, true
	}
	// not yet executed (declared inside the loop): nothing to havoc
	return "", false
}

// effectsOfCall over-approximates what a call may write.
func (x *Exec) effectsOfCall(fr *Frame, ci ssa.CallInstruction, eff *loopEffects, visited map[*ssa.Function]bool, top bool) {
	c := ci.Common()
	if c.IsInvoke() {
		key := c.Method.FullName()
		switch key {
		case "(sync.Locker).Lock", "(sync.Locker).Unlock":
			x.monitorEffects(eff)
			return
		case "(error).Error":
			return
		}
		if fc := x.cs.Funcs[key]; fc != nil {
			x.contractEffects(fc, nil, c.Method.Type().(*types.Signature), eff)
			return
		}
		eff.why = append(eff.why, "exec.go:909")
		eff.all = true
		return
	}
	if b, ok := c.Value.(*ssa.Builtin); ok {
		switch b.Name() {
		case "append", "copy":
			if sl, ok := c.Args[0].Type().Underlying().(*types.Slice); ok {
				eff.add(x.elemTargets(sl.Elem(), nil))
			}
		case "delete":
			eff.add(x.mapTargets(c.Args[0].Type().Underlying().(*types.Map), nil))
		}
		return
	}
	callee := c.StaticCallee()
	if callee == nil {
		// closure value known at engine level?
		if fr != nil {
			if v, ok := fr.regs[c.Value]; ok && v.F != nil {
				x.effectsOfFunc(v.F.Fn, eff, visited)
				return
			}
		}
		// a function value loaded from a struct field / of a named function type that carries a contract
		if ld, ok := c.Value.(*ssa.UnOp); ok {
			if fa, ok := ld.X.(*ssa.FieldAddr); ok {
				owner := fa.X.Type().Underlying().(*types.Pointer).Elem()
				if n, ok := types.Unalias(owner).(*types.Named); ok && n.Obj().Pkg() != nil {
					key := "field:(" + n.Obj().Pkg().Path() + "." + n.Obj().Name() + ")." + structOf(owner).Field(fa.Field).Name()
					if fc := x.cs.Funcs[key]; fc != nil {
						x.fieldContractEffects(fc, fa.X.Type(), c.Signature(), eff)
						return
					}
				}
			}
		}
		if n, ok := types.Unalias(c.Value.Type()).(*types.Named); ok && n.Obj().Pkg() != nil {
			if fc := x.cs.Funcs["type:"+n.Obj().Pkg().Path()+"."+n.Obj().Name()]; fc != nil {
				if len(fc.ParamNames) == c.Signature().Params().Len()+1 {
					x.fieldContractEffects(fc, c.Value.Type(), c.Signature(), eff)
				} else {
					x.fieldContractEffects(fc, nil, c.Signature(), eff)
				}
				return
			}
		}
		if x.topFC != nil {
			if ln := localFuncNameOf(c.Value); ln != "" {
				for _, pat := range x.topFC.Abstract {
					fs := strings.Fields(pat)
					if len(fs) >= 3 && fs[0] == "call" && fs[2] == "pure" && fs[1] == "local."+ln {
						return
					}
				}
			}
			if pn := paramNameOf(c.Value); pn != "" {
				for _, pat := range x.topFC.Abstract {
					fs := strings.Fields(pat)
					if len(fs) >= 3 && fs[0] == "call" && fs[2] == "pure" && fs[1] == "param."+pn {
						return
					}
				}
			}
		}
		// an unknown function value: no contract, hence no effect on ghost fields
		eff.why = append(eff.why, "exec.go:932")
		eff.all = true
		return
	}
	key := callee.String()
	switch {
	case strings.HasPrefix(key, "(*sync.Mutex)."), strings.HasPrefix(key, "(*sync.RWMutex)."), key == "(*sync.Cond).Wait":
		x.monitorEffects(eff)
		return
	case strings.HasPrefix(key, "(*sync."), key == "sync.NewCond":
		return
	case strings.HasPrefix(key, "sync/atomic.Add"), strings.HasPrefix(key, "sync/atomic.Store"):
		x.effectsOfAddr(fr, c.Args[0], eff, top)
		return
	case strings.HasPrefix(key, "sync/atomic.Load"):
		return
	case key == "time.Now", key == "time.Since":
		eff.ghosts = true
		return
	case strings.HasPrefix(key, "(time."), strings.HasPrefix(key, "time."), key == "errors.New", key == "fmt.Errorf", key == "fmt.Sprintf", key == "math/rand.Intn":
		return
	}
	if x.topFC != nil {
		// "abstract call <substring> pure contract": abstracted although the callee has a contract (see callStatic)
		for _, pat := range x.topFC.Abstract {
			fs := strings.Fields(pat)
			if len(fs) == 4 && fs[0] == "call" && fs[2] == "pure" && fs[3] == "contract" && strings.Contains(key, fs[1]) {
				return
			}
		}
	}
	if fc := x.cs.Funcs[key]; fc != nil && !fc.Inline {
		x.contractEffects(fc, callee, callee.Signature, eff)
		return
	}
	if isLogging(callee) {
		return
	}
	if callee.Blocks != nil && (callee.Parent() != nil || (x.cs.Funcs[key] != nil && x.cs.Funcs[key].Inline)) {
		x.effectsOfFunc(callee, eff, visited)
		return
	}
	if callee.Pkg == nil || !strings.HasPrefix(callee.Pkg.Pkg.Path(), repoMod) {
		if !isRepoMethod(callee) {
			// external frame rule (see externalCall)
			for _, a := range c.Args {
				switch classify(a.Type()) {
				case KBool, KInt, KString, KFloat, KScalarNamed, KOpaque, KChan:
				case KPtrStruct:
					pt := a.Type().Underlying().(*types.Pointer)
					if n, ok := types.Unalias(pt.Elem()).(*types.Named); ok && n.Obj().Pkg() != nil && !strings.HasPrefix(n.Obj().Pkg().Path(), repoMod) {
						continue
					}
					eff.why = append(eff.why, "exec.go:975")
					eff.all = true
				case KSlice:
					et := a.Type().Underlying().(*types.Slice).Elem()
					switch classify(et) {
					case KBool, KInt, KString, KFloat:
						eff.add(x.elemTargets(et, nil))
					default:
						eff.why = append(eff.why, "exec.go:982")
						eff.all = true
					}
				default:
					eff.why = append(eff.why, "exec.go:985")
					eff.all = true
				}
			}
			return
		}
	}
	if x.topFC != nil {
		// "abstract call <substring> pure": the verified function treats the call as leaving the modelled state alone
		for _, pat := range x.topFC.Abstract {
			fs := strings.Fields(pat)
			if len(fs) >= 3 && fs[0] == "call" && fs[2] == "pure" && strings.Contains(key, fs[1]) {
				return
			}
		}
	}
	eff.why = append(eff.why, "exec.go:991 "+key)
	eff.all = true
}

func (x *Exec) monitorEffects(eff *loopEffects) {
	if x.topFC == nil || len(x.topFC.Monitors) == 0 {
		return
	}
	eff.acquires = true
	env := x.envFor(x.topFrame, x.topFrame.entry, x.topFrame.entry)
	for _, m := range x.topFC.Monitors {
		for _, p := range m.Protects {
			ts, err := x.modTargets(env, p)
			if err != nil {
				eff.why = append(eff.why, "exec.go:1004")
				eff.all = true
				return
			}
			for i := range ts {
				ts[i].Ref = nil
			}
			eff.add(ts)
		}
	}
}

// contractEffects: the components named by a contract's modifies clause (object-insensitive).
func (x *Exec) contractEffects(fc *FuncContract, callee *ssa.Function, sig *types.Signature, eff *loopEffects) {
	if len(fc.Modifies) == 0 {
		return
	}
	names := paramNames(fc, callee, sig)
	env := &Env{x: x, st: x.topFrame.entry, old: x.topFrame.entry, names: map[string]Val{}, pkg: x.pkgOf(fc, callee)}
	// dummy arguments of the right types
	var ptypes []types.Type
	if callee != nil && len(callee.Params) > 0 {
		for _, p := range callee.Params {
			ptypes = append(ptypes, p.Type())
		}
	} else {
		if sig.Recv() != nil {
			ptypes = append(ptypes, sig.Recv().Type())
		}
		for i := 0; i < sig.Params().Len(); i++ {
			ptypes = append(ptypes, sig.Params().At(i).Type())
		}
	}
	if len(ptypes) != len(names) {
		eff.why = append(eff.why, "exec.go:1037")
		eff.all = true
		eff.ghostAll = true
		return
	}
	for i, n := range names {
		env.names[n] = x.u.FreshVal("dummy."+n, ptypes[i])
	}
	if err := env.bindLets(fc); err != nil {
		x.u.Trust(fmt.Sprintf("effects of %s could not be resolved (%v): treated as modifying everything", fc.Key, err))
		eff.why = append(eff.why, "exec.go:1045")
		eff.all = true
		eff.ghostAll = true
		return
	}
	for _, it := range fc.Modifies {
		ts, err := x.modTargets(env, it)
		if err != nil {
			x.u.Trust(fmt.Sprintf("effects of %s: modifies %s could not be resolved (%v): treated as modifying everything", fc.Key, it, err))
			eff.why = append(eff.why, "exec.go:1052")
			eff.all = true
			eff.ghostAll = true
			return
		}
		for i := range ts {
			ts[i].Ref = nil
		}
		eff.add(ts)
	}
}

// fieldContractEffects: effects of a call through a function value that carries a contract ("func field" /
// "func type"): parameters are the owner object (field contracts) followed by the signature's parameters.
func (x *Exec) fieldContractEffects(fc *FuncContract, ownerPtr types.Type, sig *types.Signature, eff *loopEffects) {
	if len(fc.Modifies) == 0 {
		return
	}
	var ptypes []types.Type
	if ownerPtr != nil {
		ptypes = append(ptypes, ownerPtr)
	}
	for i := 0; i < sig.Params().Len(); i++ {
		ptypes = append(ptypes, sig.Params().At(i).Type())
	}
	names := fc.ParamNames
	if len(names) != len(ptypes) {
		eff.why = append(eff.why, "field contract: parameter names")
		eff.all, eff.ghostAll = true, true
		return
	}
	env := &Env{x: x, st: x.topFrame.entry, old: x.topFrame.entry, names: map[string]Val{}, pkg: x.pkgOf(fc, nil)}
	for i, n := range names {
		env.names[n] = x.u.FreshVal("dummy."+n, ptypes[i])
	}
	if err := env.bindLets(fc); err != nil {
		eff.why = append(eff.why, "field contract: lets")
		eff.all, eff.ghostAll = true, true
		return
	}
	for _, it := range fc.Modifies {
		ts, err := x.modTargets(env, it)
		if err != nil {
			eff.why = append(eff.why, "field contract: modifies "+it)
			eff.all, eff.ghostAll = true, true
			return
		}
		for i := range ts {
			ts[i].Ref = nil
		}
		eff.add(ts)
	}
}
