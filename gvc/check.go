package main

import (
	"encoding/json"
	"flag"
	"fmt"
	"os"
	"path/filepath"
	"sort"
	"strings"
	"time"
)

type Baseline struct {
	Property string   `json:"property"`
	Proved   []string `json:"proved"`
	Unproved []string `json:"unproved"`
	Note     string   `json:"note,omitempty"`
}

type KnownFinding struct {
	Property   string `json:"property"`
	Function   string `json:"function"`   // short function name as in obligation names
	Obligation string `json:"obligation"` // kind, e.g. "ensures.c9" (any instance)
	Witness    string `json:"witness"`    // contract expression over the function's entry state
	What       string `json:"what"`
}

type KnownFile struct {
	Findings []KnownFinding `json:"findings"`
	Fixed    []string       `json:"fixed"`
}

func loadKnown() (*KnownFile, error) {
	kf := &KnownFile{}
	b, err := os.ReadFile(filepath.Join(verifDir, "known_findings.json"))
	if err != nil {
		if os.IsNotExist(err) {
			return kf, nil
		}
		return nil, err
	}
	if err := json.Unmarshal(b, kf); err != nil {
		return nil, fmt.Errorf("known_findings.json: %v", err)
	}
	return kf, nil
}

// unreachableOK: returns that are known dead code under the trusted contracts (name -> reason).
func unreachableOK() map[string]string {
	m := map[string]string{}
	if b, err := os.ReadFile(filepath.Join(verifDir, "tools", "unreachable_ok.json")); err == nil {
		json.Unmarshal(b, &m)
	}
	return m
}

func hasLabel(ls []string, p string) bool {
	for _, l := range ls {
		if l == p {
			return true
		}
	}
	return false
}

// funcServes reports whether a contract has anything to do with property p.
func funcServes(fc *FuncContract, p string) bool {
	if hasLabel(fc.Props, p) {
		return true
	}
	for _, c := range fc.Requires {
		if hasLabel(c.Labels, p) {
			return true
		}
	}
	for _, c := range fc.Ensures {
		if hasLabel(c.Labels, p) {
			return true
		}
	}
	for _, cs := range fc.Loops {
		for _, c := range cs {
			if hasLabel(c.Labels, p) {
				return true
			}
		}
	}
	for _, cs := range fc.CallAssert {
		for _, c := range cs {
			if hasLabel(c.Labels, p) {
				return true
			}
		}
	}
	return false
}

type funcEvidence struct {
	Function    string         `json:"function"`
	Contract    string         `json:"contract_file"`
	Mode        string         `json:"mode"`
	Obligations map[string]int `json:"obligations_by_kind"`
	Proved      int            `json:"proved"`
	Unproved    int            `json:"unproved"`
	Abstracted  []string       `json:"abstracted,omitempty"`
}

type sample struct {
	Name   string  `json:"obligation"`
	Pos    string  `json:"source"`
	Clause string  `json:"clause,omitempty"`
	Status string  `json:"status"`
	Solver string  `json:"backend"`
	TimeS  float64 `json:"time_s"`
	Bytes  int     `json:"smt_bytes"`
}

func kindOf(name string) string {
	i := strings.Index(name, "#")
	k := name[i+1:]
	if j := strings.LastIndex(k, ":"); j >= 0 {
		k = k[:j]
	}
	return k
}

func baseKind(k string) string {
	for _, p := range []string{"ensures", "requires@", "inv-entry", "inv-preserved", "decreases", "frame", "monitor-inv", "vacuity"} {
		if strings.HasPrefix(k, p) {
			return strings.TrimSuffix(p, "@")
		}
	}
	return k
}

func cmdCheck(args []string) {
	fs := flag.NewFlagSet("check", flag.ExitOnError)
	prop := fs.String("property", "", "property id")
	tier := fs.String("tier", env("VERIF_TIER", "quick"), "quick|thorough")
	writeBaseline := fs.Bool("write-baseline", false, "record the obligations proved now as the reference (never used by registered commands)")
	verbose := fs.Bool("v", false, "verbose")
	replayOnly := fs.String("replay", "", "re-run a replay file")
	fs.Parse(args)
	if *replayOnly != "" {
		os.Exit(rerunReplay(*replayOnly))
	}
	if *prop == "" {
		fmt.Fprintln(os.Stderr, "check: --property required")
		os.Exit(2)
	}
	t0 := time.Now()
	seed := 0
	fmt.Sscanf(os.Getenv("VERIF_SEED"), "%d", &seed)
	timeout := 30 * time.Second
	if *tier == "thorough" {
		timeout = 120 * time.Second
	}
	code := runCheck(*prop, *tier, seed, timeout, *writeBaseline, *verbose, t0)
	os.Exit(code)
}

func engineFail(prop string, format string, a ...interface{}) int {
	fmt.Printf("ENGINE-ERROR property=%s %s\n", prop, fmt.Sprintf(format, a...))
	return 2
}

func runCheck(prop, tier string, seed int, timeout time.Duration, writeBaseline, verbose bool, t0 time.Time) int {
	cs, err := LoadAllContracts(repoDir, trustedDir)
	if err != nil {
		return engineFail(prop, "contracts: %v", err)
	}
	known, err := loadKnown()
	if err != nil {
		return engineFail(prop, "%v", err)
	}
	var keys []string
	pkgSet := map[string]bool{}
	for k, fc := range cs.Funcs {
		if fc.Trusted || fc.Inline {
			continue
		}
		if funcServes(fc, prop) {
			keys = append(keys, k)
			pkgSet[fc.Pkg] = true
		}
	}
	sort.Strings(keys)
	for _, lm := range cs.Lemmas {
		if hasLabel(lm.Clause.Labels, prop) {
			pkgSet[lm.Pkg] = true
		}
	}
	if len(keys) == 0 {
		return engineFail(prop, "no function under contract serves this property")
	}
	var pkgs []string
	for p := range pkgSet {
		pkgs = append(pkgs, p)
	}
	sort.Strings(pkgs)
	// every package that carries contracts is loaded with function bodies (callees marked inline live there)
	pkgs = contractPackages(cs)
	prog, err := LoadProgram(repoDir, pkgs)
	if err != nil {
		return engineFail(prop, "load: %v", err)
	}
	tmp, err := os.MkdirTemp("", "gvc-"+prop+"-")
	if err != nil {
		return engineFail(prop, "%v", err)
	}
	if os.Getenv("GVC_KEEP") == "" {
		defer os.RemoveAll(tmp)
	} else {
		fmt.Println("keeping SMT files in", tmp)
	}

	type fres struct {
		r    *FuncResult
		obls []*Obligation
	}
	var results []*fres
	var units []*Unit
	trusted := map[string]bool{}
	var funcsEv []funcEvidence
	for _, k := range keys {
		fc := cs.Funcs[k]
		f, ok := prog.Funcs[k]
		if !ok {
			if strings.Contains(k, ").") && !strings.Contains(k, "(*") {
				continue // contract on an interface method: no body to verify
			}
			return engineFail(prop, "contract for %s: no such function in the repository", k)
		}
		r := VerifyFunction(prog, cs, f, fc)
		if r.Err != nil {
			return engineFail(prop, "%v", r.Err)
		}
		// keep only this property's obligations
		var mine []*Obligation
		for _, o := range r.Unit.Obls {
			if hasLabel(o.Labels, prop) {
				mine = append(mine, o)
			}
		}
		// known findings: split matching obligations by the witness predicate
		mine = applyKnown(r, mine, known, prop)
		r.Unit.Obls = mine
		results = append(results, &fres{r, mine})
		units = append(units, r.Unit)
		for _, a := range r.Unit.TrustedList() {
			trusted[a] = true
		}
	}
	for _, lm := range cs.Lemmas {
		if !hasLabel(lm.Clause.Labels, prop) {
			continue
		}
		r := VerifyLemma(prog, cs, lm)
		if r.Err != nil {
			return engineFail(prop, "%v", r.Err)
		}
		results = append(results, &fres{r, r.Unit.Obls})
		units = append(units, r.Unit)
	}
	SolveAll(units, tmp, timeout, 12)

	base := &Baseline{Property: prop}
	bpath := filepath.Join(verifDir, "baseline", prop+".json")
	if b, err := os.ReadFile(bpath); err == nil {
		json.Unmarshal(b, base)
	}
	inProved := map[string]bool{}
	for _, n := range base.Proved {
		inProved[n] = true
	}
	inUnproved := map[string]bool{}
	for _, n := range base.Unproved {
		inUnproved[n] = true
	}

	var violations []string
	var knownLines []string
	var undecided []map[string]string
	var samples []sample
	nObl, nProved := 0, 0
	solverTime := map[string]float64{}
	nVacOK, nVacInconcl, nUnreach := 0, 0, 0
	var unreachable []string
	seen := map[string]bool{}
	var newProved, newUnproved []string
	replayDir := filepath.Join(verifDir, "replays", prop)
	os.RemoveAll(replayDir)
	for _, fr := range results {
		fe := funcEvidence{Function: fr.r.Func, Contract: fr.r.Contract.File, Mode: map[Mode]string{ModeInt: "int", ModeBV: "bv"}[fr.r.Mode], Obligations: map[string]int{}}
		for _, o := range fr.obls {
			seen[o.Name] = true
			solverTime[o.Solver] += o.TimeS
			fe.Obligations[baseKind(o.Kind)]++
			if o.Vacuity {
				switch o.Status {
				case "proved":
					nVacOK++
				case "failed":
					if strings.Contains(o.Kind, "vacuity.return") {
						// a return that the contracts make unreachable: accepted only if it is a known piece of dead
						// code (tools/unreachable_ok.json says why); otherwise the assumptions on that path are
						// contradictory and everything "proved" there is vacuous — an engine error, never a pass
						if _, ok := unreachableOK()[o.Name]; !ok {
							// reported like a failed obligation: on the reference tree every return is reachable (or
							// listed), so this is the current code disagreeing with its contract
							nObl++
							o.Text = "return point is reachable under the contracts (a refuted probe means: the assumptions on this path are contradictory, or the code can no longer return here)"
							rp := writeReplay(replayDir, prop, fr.r, o)
							violations = append(violations, fmt.Sprintf("VIOLATION property=%s replay=%s obligation=%s no-failing-input-found", prop, rp.Path, o.Name))
							fe.Unproved++
							continue
						}
						nUnreach++
						unreachable = append(unreachable, o.Name)
						continue
					}
					return engineFail(prop, "vacuity guard: %s — %s", o.Name, o.Output)
				default:
					nVacInconcl++
				}
				continue
			}
			if o.KnownProbe != nil {
				// the "finding still present" probe
				if o.Status == "failed" || o.Status == "candidate" {
					knownLines = append(knownLines, fmt.Sprintf("KNOWN-FINDING: property=%s %s [%s]", prop, o.KnownProbe.What, o.Name))
				} else if o.Status != "proved" {
					// the solvers neither refuted nor confirmed the obligation on the witness: the finding stays listed
					knownLines = append(knownLines, fmt.Sprintf("KNOWN-FINDING: property=%s %s [%s; probe inconclusive: %s]", prop, o.KnownProbe.What, o.Name, o.Status))
				} else if o.Status == "proved" {
					fmt.Printf("NOTE property=%s known finding no longer reproduces (obligation %s holds on the witness too): %s\n", prop, o.Name, o.KnownProbe.What)
				}
				continue
			}
			if o.Status == "proved" {
				fe.Proved++
				newProved = append(newProved, o.Name)
				nObl++
				nProved++
				if len(samples) < 6 || (baseKind(o.Kind) == "ensures" && len(samples) < 12) {
					samples = append(samples, sample{o.Name, o.Pos, o.Text, o.Status, o.Solver, o.TimeS, o.SMTBytes})
				}
				continue
			}
			fe.Unproved++
			newUnproved = append(newUnproved, o.Name)
			if writeBaseline {
				continue
			}
			if inUnproved[o.Name] && !inProved[o.Name] {
				// never proved on the reference tree: undecided, not a violation
				undecided = append(undecided, map[string]string{"obligation": o.Name, "clause": o.Text, "status": o.Status, "reason": firstLines(o.Output, 2)})
				continue
			}
			// proved on the reference tree (or new) and failing now: violation
			nObl++
			rp := writeReplay(replayDir, prop, fr.r, o)
			line := fmt.Sprintf("VIOLATION property=%s replay=%s obligation=%s", prop, rp.Path, o.Name)
			if !rp.Reproduced {
				line += " no-failing-input-found"
			}
			violations = append(violations, line)
		}
		funcsEv = append(funcsEv, fe)
	}
	// obligations that were proved on the reference tree and no longer exist
	var missing []string
	for n := range inProved {
		if !seen[n] {
			missing = append(missing, n)
		}
	}
	sort.Strings(missing)

	if writeBaseline {
		sort.Strings(newProved)
		sort.Strings(newUnproved)
		nb := &Baseline{Property: prop, Proved: newProved, Unproved: newUnproved,
			Note: "obligations discharged on the reference tree; written by `gvc check --write-baseline`, never at check time"}
		os.MkdirAll(filepath.Dir(bpath), 0o755)
		b, _ := json.MarshalIndent(nb, "", " ")
		os.WriteFile(bpath, append(b, '\n'), 0o644)
		fmt.Printf("baseline written: %s (%d proved, %d unproved)\n", bpath, len(newProved), len(newUnproved))
	}

	// bounded stand-ins (labelled bounded; never counted as obligations)
	var boundedEv []boundedResult
	if !writeBaseline {
		for _, sp := range loadBounded(prop) {
			res, violated, err := runBounded(prop, tier, sp)
			if err != nil {
				return engineFail(prop, "%v", err)
			}
			if violated {
				rp := writeBoundedReplay(filepath.Join(verifDir, "replays", prop), prop, res)
				violations = append(violations, fmt.Sprintf("VIOLATION property=%s replay=%s bounded=%q disagreements=%d (failing inputs from the run on the real code are in the replay file)", prop, rp, res.Name, res.Disagreements))
				res.Output = ""
			}
			boundedEv = append(boundedEv, res)
			fmt.Printf("bounded property=%s %q cases=%d disagreements=%d bound=%q wall=%.1fs\n", prop, res.Name, res.Cases, res.Disagreements, res.Bound, res.WallS)
		}
	}

	// evidence
	var tb []string
	for a := range trusted {
		tb = append(tb, a)
	}
	sort.Strings(tb)
	stime := map[string]float64{}
	for k, v := range solverTime {
		if k != "" {
			stime[k] = float64(int(v*100)) / 100
		}
	}
	ev := map[string]interface{}{
		"property_id": prop,
		"tier":        tier,
		"seed":        seed,
		"level":       "proof",
		"wall_s":      time.Since(t0).Seconds(),
		"violations":  len(violations),
		"assumptions": tb,
		"coverage": map[string]interface{}{
			"obligations":  nObl,
			"discharged":   nProved,
			"checker_cmd":  fmt.Sprintf("/verif/bin/gvc check --property %s --tier %s  (go/ssa naive form -> weakest-precondition VCs; back ends raced per obligation: z3 5.1.0, z3 4.8.12, cvc5 1.0; timeout %s)", prop, tier, timeout),
			"trusted_base": tb,
			"samples":      samples,
			"functions":    funcsEv,
			"undecided":    undecided,
			"known_findings": knownLines,
			"missing_obligations": missing,
			"bounded": boundedEv,
			"vacuity": map[string]interface{}{"probes_satisfiable": nVacOK, "probes_inconclusive": nVacInconcl, "unreachable_returns": unreachable},
			"solver_time_s": stime,
			"explanation":  "obligations = proof obligations claimed for this property (generated from /repo's current source); discharged = those a solver answered unsat for; undecided[] lists obligations never discharged on the reference tree (not counted, not claimed)",
		},
	}
	os.MkdirAll(filepath.Join(verifDir, "evidence"), 0o755)
	eb, _ := json.MarshalIndent(ev, "", " ")
	if err := os.WriteFile(filepath.Join(verifDir, "evidence", prop+".json"), append(eb, '\n'), 0o644); err != nil {
		return engineFail(prop, "%v", err)
	}
	for _, l := range knownLines {
		fmt.Println(l)
	}
	for _, m := range missing {
		fmt.Printf("WARNING property=%s obligation of the reference tree no longer generated: %s\n", prop, m)
	}
	if verbose {
		for _, fr := range results {
			for _, o := range fr.obls {
				if o.Status != "proved" {
					fmt.Printf("  [%s] %s %s %q\n", o.Status, o.Name, o.Pos, o.Text)
				}
			}
		}
	}
	fmt.Printf("property=%s tier=%s functions=%d obligations=%d discharged=%d undecided=%d known=%d violations=%d wall=%.1fs\n",
		prop, tier, len(results), nObl, nProved, len(undecided), len(knownLines), len(violations), time.Since(t0).Seconds())
	if len(violations) > 0 {
		for _, v := range violations {
			fmt.Println(v)
		}
		return 1
	}
	if nProved == 0 && !writeBaseline {
		return engineFail(prop, "no obligation discharged")
	}
	return 0
}

// applyKnown replaces each obligation matched by a known finding by two obligations:
// the original restricted to inputs outside the witness (must be proved), and a probe
// "the finding is still present" (expected to fail).
func applyKnown(r *FuncResult, obls []*Obligation, known *KnownFile, prop string) []*Obligation {
	var out []*Obligation
	for _, o := range obls {
		var kf *KnownFinding
		for i := range known.Findings {
			f := &known.Findings[i]
			if f.Property == prop && f.Function == r.Func && kindOf(o.Name) == f.Obligation {
				kf = f
				break
			}
		}
		if kf == nil || o.Vacuity {
			out = append(out, o)
			continue
		}
		x := r.X
		env := x.envFor(x.topFrame, x.topFrame.entry, x.topFrame.entry)
		if err := env.bindLets(r.Contract); err != nil {
			panic(engineErr("known finding witness: %v", err))
		}
		e, err := ParseExpr(kf.Witness)
		if err != nil {
			panic(engineErr("known finding witness %q: %v", kf.Witness, err))
		}
		w, err := env.Bool(e)
		if err != nil {
			panic(engineErr("known finding witness %q: %v", kf.Witness, err))
		}
		o.NCmds = len(x.u.cmds)
		rest := *o
		rest.PC = And(o.PC, Not(w))
		rest.Text = o.Text + "   [outside known finding: " + kf.Witness + "]"
		probe := *o
		probe.Name = o.Name + "!known"
		probe.PC = And(o.PC, w)
		probe.KnownProbe = kf
		out = append(out, &rest, &probe)
	}
	return out
}
