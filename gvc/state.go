package main

import (
	"fmt"
	"go/types"
	"sort"
	"strings"
)

// State is the symbolic machine state at one program point.
type State struct {
	PC    Term
	Vars  map[string]Val  // locals (and phi variables), by key
	Heap  map[string]Term // heap component -> current array term
	Epoch int             // components never touched since the last full havoc are named X@Epoch
	Alloc Term            // allocation counter
	Snap  map[string]*State // named snapshots (e.g. "lock")
	Ghost map[string]Term   // ghost scalar variables (call counters etc.)
	Defer []string          // keys of deferred-call flags (see exec)
	Mix   *epochMix         // set when states with different epochs were merged
}

// epochMix: heap components untouched since a merge of differently-havocked states read as an
// ite over the merged states' values.
type epochMix struct {
	pcs []Term
	sts []*State
}

func (s *State) Clone() *State {
	n := &State{PC: s.PC, Epoch: s.Epoch, Alloc: s.Alloc, Mix: s.Mix,
		Vars: make(map[string]Val, len(s.Vars)), Heap: make(map[string]Term, len(s.Heap)),
		Snap: make(map[string]*State, len(s.Snap)), Ghost: make(map[string]Term, len(s.Ghost))}
	for k, v := range s.Vars {
		n.Vars[k] = v
	}
	for k, v := range s.Heap {
		n.Heap[k] = v
	}
	for k, v := range s.Snap {
		n.Snap[k] = v
	}
	for k, v := range s.Ghost {
		n.Ghost[k] = v
	}
	n.Defer = append([]string(nil), s.Defer...)
	return n
}

// comp returns the current term of a heap component, creating its initial constant on demand.
func (u *Unit) comp(s *State, name string, so Sort) Term {
	if t, ok := s.Heap[name]; ok {
		if u.specDepth > 0 {
			u.needTyping(t.S)
		}
		return t
	}
	if u.specDepth > 0 {
		defer func() {
			for _, suffix := range []string{fmt.Sprintf("@%d", s.Epoch), "@0"} {
				u.needTyping(name + suffix)
			}
		}()
	}
	if strings.HasPrefix(name, "GF$") {
		// ghost fields are never changed by real code: a full havoc of the heap does not touch them
		return u.Declare(fmt.Sprintf("%s@0", name), so)
	}
	if s.Mix != nil {
		c := u.Declare(fmt.Sprintf("%s@%d", name, s.Epoch), so)
		n := len(s.Mix.sts)
		t := u.comp(s.Mix.sts[n-1], name, so)
		for i := n - 2; i >= 0; i-- {
			t = Ite(s.Mix.pcs[i], u.comp(s.Mix.sts[i], name, so), t)
		}
		u.emitOnce(fmt.Sprintf("(assert (= %s %s))", c.S, t.S))
		return c
	}
	return u.Declare(fmt.Sprintf("%s@%d", name, s.Epoch), so)
}

func (u *Unit) setComp(s *State, name string, t Term) {
	s.Heap[name] = u.Define(name, t)
}

// ghost scalar
func (u *Unit) ghost(s *State, name string, so Sort) Term {
	if t, ok := s.Ghost[name]; ok {
		return t
	}
	return u.Declare(fmt.Sprintf("ghost$%s@%d", sanitize(name), s.Epoch), so)
}

// ---------------------------------------------------------------------------
// component naming

// compRanges records, for heap components holding Go integers, the integer type (typing invariant:
// every value stored in such a component is within the range of its type).
var compRanges = map[string]intInfo{}

// compRefs: heap components whose values are object identities (typing invariant: every identity stored in
// the heap was allocated no later than the component version was created).
var compRefs = map[string]bool{}

// compDyn: heap components whose values are pointers to a struct type: the dynamic type tag of every non-nil value
// stored there is that struct type (dyn(ref) == structTypeID).
var compDyn = map[string]int{}

var structTypeIDs = map[string]int{}

// structTypeID numbers struct types (1, 2, …); 0 is "not a struct object".
func structTypeID(t types.Type) int {
	k := typeKey(types.Unalias(t))
	if id, ok := structTypeIDs[k]; ok {
		return id
	}
	id := len(structTypeIDs) + 1
	structTypeIDs[k] = id
	return id
}

// dynOfSlot: the dynamic type tag of the non-nil values a reference slot can hold: the struct type id for a pointer to
// a struct, 0 for slice backings, maps, channels and cells; unknown (false) for interface payloads and unsafe pointers.
func dynOfSlot(sl Slot) (int, bool) {
	if !sl.Ref || strings.HasSuffix(sl.Suffix, "#val") || sl.T == nil {
		return 0, false
	}
	if et, ok := ptrStructElem(sl.T); ok {
		return structTypeID(et), true
	}
	switch classify(sl.T) {
	case KPtrCell, KMap, KChan, KSlice:
		return 0, true
	}
	return 0, false
}

// ptrStructElem: the struct type a pointer type points to, if any.
func ptrStructElem(t types.Type) (types.Type, bool) {
	if t == nil {
		return nil, false
	}
	pt, ok := types.Unalias(t).Underlying().(*types.Pointer)
	if !ok {
		return nil, false
	}
	if classify(pt.Elem()) != KStruct {
		return nil, false
	}
	return pt.Elem(), true
}
var layoutUnit = NewUnit("layout", ModeInt, nil)

func regRange(name string, t types.Type, suffix string) string {
	if _, ok := compRanges[name]; ok {
		return name
	}
	if compRefs[name] {
		return name
	}
	defer func() { recover() }()
	for _, sl := range layoutUnit.Layout(t) {
		if sl.Suffix == suffix && sl.Int != nil {
			compRanges[name] = *sl.Int
		}
		if sl.Suffix == suffix && sl.Ref {
			compRefs[name] = true
			if tid, ok := dynOfSlot(sl); ok {
				compDyn[name] = tid
			}
		}
	}
	return name
}

func fieldComp(owner types.Type, fname string, suffix string) string {
	name := sanitize("F$" + structKey(owner) + "$" + fname + suffix)
	st := structOf(owner)
	for i := 0; i < st.NumFields(); i++ {
		if st.Field(i).Name() == fname {
			regRange(name, st.Field(i).Type(), suffix)
		}
	}
	return name
}
func subFn(owner types.Type, fname string) string {
	return sanitize("sub$" + structKey(owner) + "$" + fname)
}
func cellComp(t types.Type, suffix string) string {
	return regRange(sanitize("C$"+typeKey(t)+suffix), t, suffix)
}
func elemComp(t types.Type, suffix string) string {
	return regRange(sanitize("E$"+typeKey(t)+suffix), t, suffix)
}
func mapDomComp(k, v types.Type) string { return sanitize("MD$" + typeKey(k) + "$" + typeKey(v)) }
func mapValComp(k, v types.Type, suffix string) string {
	return regRange(sanitize("MV$"+typeKey(k)+"$"+typeKey(v)+suffix), v, suffix)
}
func mapCardComp(k, v types.Type) string { return sanitize("MC$" + typeKey(k) + "$" + typeKey(v)) }
func globalComp(name, suffix string) string { return sanitize("G$" + name + suffix) }
func ghostFieldComp(owner types.Type, name, suffix string) string {
	return sanitize("GF$" + typeKey(owner) + "$" + name + suffix)
}

// Sub returns the identity of the struct nested in field fname of object ref.
func (u *Unit) Sub(owner types.Type, fname string, ref Term) Term {
	fn := subFn(owner, fname)
	if !u.subFns[fn] {
		u.subFns[fn] = true
		u.DeclareFun(fn, []Sort{SInt}, SInt)
		u.DeclareFun(fn+".inv", []Sort{SInt}, SInt)
		k := len(u.subFns)
		u.emit(fmt.Sprintf("(assert (forall ((x Int)) (! (and (= (%s.inv (%s x)) x) (= (kind (%s x)) %d) (= (root (%s x)) (root x)) (=> (not (= x 0)) (not (= (%s x) 0)))) :pattern ((%s x)))))", fn, fn, fn, k, fn, fn, fn))
	}
	return App(fn, SInt, ref)
}

// ---------------------------------------------------------------------------
// merging

// MergeStates joins states arriving over mutually exclusive edges.
func (u *Unit) MergeStates(sts []*State, label string) *State {
	if len(sts) == 1 {
		return sts[0].Clone()
	}
	pcs := make([]Term, len(sts))
	for i, s := range sts {
		pcs[i] = s.PC
	}
	out := &State{PC: u.Define(label, Or(pcs...)), Vars: map[string]Val{}, Heap: map[string]Term{},
		Snap: map[string]*State{}, Ghost: map[string]Term{}}
	// epochs: if the states were havocked differently, untouched components are mixed lazily
	out.Epoch = sts[0].Epoch
	out.Mix = sts[0].Mix
	mixed := false
	for _, s := range sts {
		if s.Epoch != out.Epoch {
			epochCounter++
			out.Epoch = epochCounter
			out.Mix = &epochMix{pcs: pcs, sts: sts}
			mixed = true
			break
		}
	}
	mergeTerm := func(name string, get func(*State) Term) Term {
		first := get(sts[0])
		same := true
		for _, s := range sts[1:] {
			if get(s).S != first.S {
				same = false
				break
			}
		}
		if same {
			return first
		}
		t := get(sts[len(sts)-1])
		for i := len(sts) - 2; i >= 0; i-- {
			t = Ite(sts[i].PC, get(sts[i]), t)
		}
		return u.Define(name, t)
	}
	out.Alloc = mergeTerm("alloc", func(s *State) Term { return s.Alloc })
	if mixed {
		u.epochAlloc[out.Epoch] = out.Alloc
	}
	// heap
	keys := map[string]Sort{}
	for _, s := range sts {
		for k, t := range s.Heap {
			keys[k] = t.So
		}
	}
	for _, k := range sortedKeys(keys) {
		so := keys[k]
		out.Heap[k] = mergeTerm(k, func(s *State) Term { return u.comp(s, k, so) })
	}
	gkeys := map[string]Sort{}
	for _, s := range sts {
		for k, t := range s.Ghost {
			gkeys[k] = t.So
		}
	}
	for _, k := range sortedKeys(gkeys) {
		so := gkeys[k]
		out.Ghost[k] = mergeTerm("ghost$"+k, func(s *State) Term { return u.ghost(s, k, so) })
	}
	// vars: those present in all states are merged; a plain (SMT-valued) variable that exists on some of the paths
	// only keeps its value on those paths and is arbitrary on the others (so that a clause evaluated after the join
	// can still speak about it under the condition of its path)
	vkeys := map[string]Val{}
	for _, s := range sts {
		for k, v := range s.Vars {
			if _, ok := vkeys[k]; !ok {
				vkeys[k] = v
			}
		}
	}
	for _, k := range sortedValKeys(vkeys) {
		v0 := vkeys[k]
		all := true
		for _, s := range sts {
			if _, ok := s.Vars[k]; !ok {
				all = false
				break
			}
		}
		vals := make([]Val, len(sts))
		if !all {
			if v0.P != nil || v0.F != nil || v0.T == nil {
				continue
			}
			ok := true
			for i, s := range sts {
				if v, has := s.Vars[k]; has {
					if v.P != nil || v.F != nil || len(v.S) != len(v0.S) {
						ok = false
						break
					}
					vals[i] = v
				} else {
					vals[i] = u.FreshVal(k+".absent", v0.T)
				}
			}
			if !ok {
				continue
			}
		} else {
			for i, s := range sts {
				vals[i] = s.Vars[k]
			}
		}
		out.Vars[k] = u.mergeVals(k, v0.T, vals, pcs)
	}
	// snapshots: keep those identical in all; otherwise merge recursively
	for k, sn := range sts[0].Snap {
		same := true
		var sns []*State
		for _, s := range sts {
			o, ok := s.Snap[k]
			if !ok {
				same = false
				sns = nil
				break
			}
			if o != sn {
				same = false
			}
			sns = append(sns, o)
		}
		if same {
			out.Snap[k] = sn
		} else if sns != nil {
			// re-guard each snapshot with the arriving pc so that the ite picks by arrival edge
			var gs []*State
			for i, o := range sns {
				c := o.Clone()
				c.PC = pcs[i]
				gs = append(gs, c)
			}
			out.Snap[k] = u.MergeStates(gs, label+".snap")
		}
	}
	// defers: union, flags merged as vars already
	seen := map[string]bool{}
	for _, s := range sts {
		for _, d := range s.Defer {
			if !seen[d] {
				seen[d] = true
				out.Defer = append(out.Defer, d)
			}
		}
	}
	return out
}

func sortedKeys(m map[string]Sort) []string {
	var ks []string
	for k := range m {
		ks = append(ks, k)
	}
	sort.Strings(ks)
	return ks
}

func (u *Unit) mergeVals(name string, t types.Type, vals []Val, pcs []Term) Val {
	// engine-level pointers
	anyP := false
	for _, v := range vals {
		if v.P != nil {
			anyP = true
		}
	}
	if anyP {
		var alts []PtrAlt
		for i, v := range vals {
			if v.P == nil {
				// SMT-level cell pointer: turn into an address
				if len(v.S) == 1 {
					pt := types.Unalias(t).Underlying().(*types.Pointer)
					alts = append(alts, PtrAlt{pcs[i], Addr{Kind: ACell, T: pt.Elem(), Ref: v.S[0]}})
					continue
				}
				panic("merge: mixed pointer representations for " + name)
			}
			for _, a := range v.P.Alts {
				alts = append(alts, PtrAlt{And(pcs[i], a.Guard), a.A})
			}
		}
		return Val{T: t, P: &PtrVal{Alts: alts}}
	}
	anyF := false
	for _, v := range vals {
		if v.F != nil {
			anyF = true
		}
	}
	if anyF {
		f0 := vals[0].F
		mixed := false
		for _, v := range vals[1:] {
			if v.F == nil || f0 == nil || v.F.Fn != f0.Fn {
				mixed = true
			}
		}
		if mixed {
			// a variable that holds a closure literal on one path and some other function value on another: from
			// here on it is an opaque (non-nil where it is a closure) function value; calls through it go by the
			// contract of its function type
			u.Trust("a function variable holding different closures on different paths is an opaque function value after the join")
			conv := make([]Val, len(vals))
			for i, v := range vals {
				if v.F != nil && len(v.S) == 0 {
					id := u.Fresh("closure", SInt)
					u.Assume(Neq(id, IntLit(0)))
					conv[i] = Val{T: t, S: []Term{id}}
				} else {
					conv[i] = v
				}
			}
			vals = conv
			anyF = false
		}
	}
	if anyF {
		f0 := vals[0].F
		nb := make([]Val, len(f0.Bindings))
		for bi := range f0.Bindings {
			bs := make([]Val, len(vals))
			for i, v := range vals {
				bs[i] = v.F.Bindings[bi]
			}
			nb[bi] = u.mergeVals(fmt.Sprintf("%s.b%d", name, bi), f0.Bindings[bi].T, bs, pcs)
		}
		return Val{T: t, F: &Closure{Fn: f0.Fn, Bindings: nb}}
	}
	n := len(vals[0].S)
	out := Val{T: t, S: make([]Term, n)}
	for si := 0; si < n; si++ {
		first := vals[0].S[si]
		same := true
		for _, v := range vals[1:] {
			if len(v.S) != n {
				panic("merge: slot count mismatch for " + name)
			}
			if v.S[si].S != first.S {
				same = false
			}
		}
		if same {
			out.S[si] = first
			continue
		}
		tm := vals[len(vals)-1].S[si]
		for i := len(vals) - 2; i >= 0; i-- {
			tm = Ite(pcs[i], vals[i].S[si], tm)
		}
		out.S[si] = u.Define(name, tm)
	}
	return out
}

func sortedValKeys(m map[string]Val) []string {
	ks := make([]string, 0, len(m))
	for k := range m {
		ks = append(ks, k)
	}
	sort.Strings(ks)
	return ks
}
