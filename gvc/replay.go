package main

import (
	"bytes"
	"encoding/json"
	"fmt"
	"os"
	"os/exec"
	"path/filepath"
	"sort"
	"strconv"
	"strings"
	"text/template"
	"time"
)

// ReplayResult describes the replay file written for a violated obligation.
type ReplayResult struct {
	Path       string
	Reproduced bool
}

type replayFile struct {
	Property   string            `json:"property"`
	Obligation string            `json:"obligation"`
	Function   string            `json:"function"`
	Clause     string            `json:"clause"`
	Source     string            `json:"source"`
	Status     string            `json:"solver_status"`
	Solver     string            `json:"solver"`
	Witness    map[string]string `json:"witness,omitempty"`
	SolverOut  string            `json:"solver_output"`
	Template   string            `json:"replay_template,omitempty"`
	Package    string            `json:"package_dir,omitempty"`
	TestName   string            `json:"test_name,omitempty"`
	TestSource string            `json:"test_source,omitempty"`
	Replay     string            `json:"replay_result"`
	ReplayOut  string            `json:"replay_output,omitempty"`
}

type replayIndexEntry struct {
	Template string            `json:"template"`
	Vars     map[string]string `json:"vars"`
	Kinds    []string          `json:"kinds"` // obligation-kind prefixes this template can replay (empty: all)
}

// templateFor finds the replay template of a function: /verif/replay/index.json maps function names to
// shared templates (with constant template variables); otherwise <sanitized name>.go.tmpl.
func templateFor(fn string, kind string) (string, map[string]string) {
	if b, err := os.ReadFile(filepath.Join(verifDir, "replay", "index.json")); err == nil {
		idx := map[string][]replayIndexEntry{}
		if err := json.Unmarshal(b, &idx); err == nil {
			for _, e := range idx[fn] {
				if len(e.Kinds) == 0 {
					return filepath.Join(verifDir, "replay", e.Template), e.Vars
				}
				for _, k := range e.Kinds {
					if strings.HasPrefix(kind, k) {
						return filepath.Join(verifDir, "replay", e.Template), e.Vars
					}
				}
			}
			if _, ok := idx[fn]; ok {
				return "", nil
			}
		}
	}
	return filepath.Join(verifDir, "replay", sanitize(fn)+".go.tmpl"), nil
}

// smtInt parses an SMT integer / bit-vector / bool model value into a Go literal.
func smtValue(v string) string {
	v = strings.TrimSpace(v)
	if strings.HasPrefix(v, "(- ") {
		return "-" + strings.TrimSuffix(strings.TrimPrefix(v, "(- "), ")")
	}
	if strings.HasPrefix(v, "#x") {
		n, err := strconv.ParseUint(v[2:], 16, 64)
		if err == nil {
			return strconv.FormatUint(n, 10)
		}
	}
	if strings.HasPrefix(v, "#b") {
		n, err := strconv.ParseUint(v[2:], 2, 64)
		if err == nil {
			return strconv.FormatUint(n, 10)
		}
	}
	if strings.HasPrefix(v, "(_ bv") {
		var s string
		var w int
		fmt.Sscanf(v, "(_ bv%s %d)", &s, &w)
		return s
	}
	return v
}

func writeReplay(dir, prop string, r *FuncResult, o *Obligation) ReplayResult {
	os.MkdirAll(dir, 0o755)
	path := filepath.Join(dir, sanitize(o.Name)+".json")
	rf := &replayFile{Property: prop, Obligation: o.Name, Function: r.Func, Clause: o.Text, Source: o.Pos,
		Status: o.Status, Solver: o.Solver, SolverOut: o.Output, Replay: "no-failing-input-found"}
	wit := map[string]string{}
	for k, v := range o.Model {
		if strings.HasPrefix(k, "wit$") {
			wit[k[4:]] = smtValue(v)
		}
	}
	rf.Witness = wit
	res := ReplayResult{Path: path}
	tp, tvars := templateFor(r.Func, o.Kind)
	if tb, err := os.ReadFile(tp); err == nil && len(o.Model) > 0 {
		rf.Template = tp
		// the template may state which models it can replay ("// prefer: <expr over the entry state>")
		if m := preferredModel(string(tb), r, o); m != nil {
			wit = map[string]string{}
			for k, v := range m {
				if strings.HasPrefix(k, "wit$") {
					wit[k[4:]] = smtValue(v)
				}
			}
			rf.Witness = wit
		}
		for k, v := range tvars {
			wit[k] = v
		}
		ok, detail := runReplayTemplate(string(tb), rf, r, wit)
		// a model of the relaxed query may be spurious: ask for other models (previous ones blocked)
		var blocked []map[string]string
		for attempt := 0; !ok && attempt < 3 && len(wit) > 0; attempt++ {
			blocked = append(blocked, rawWitness(o.Model))
			m := anotherModel(string(tb), r, o, blocked)
			if m == nil {
				break
			}
			o.Model = m
			wit = map[string]string{}
			for k, v := range m {
				if strings.HasPrefix(k, "wit$") {
					wit[k[4:]] = smtValue(v)
				}
			}
			for k, v := range tvars {
				wit[k] = v
			}
			rf.Witness = wit
			ok, detail = runReplayTemplate(string(tb), rf, r, wit)
		}
		if ok {
			rf.Replay = "reproduced-on-real-code"
			res.Reproduced = true
		} else {
			rf.Replay = "no-failing-input-found"
		}
		rf.ReplayOut = detail
	} else if len(o.Model) == 0 {
		rf.ReplayOut = "the solver produced no model for this obligation (" + o.Status + ")"
	} else {
		rf.ReplayOut = "no replay template for " + r.Func + " (" + tp + ")"
	}
	b, _ := json.MarshalIndent(rf, "", " ")
	os.WriteFile(path, append(b, '\n'), 0o644)
	return res
}

// runReplayTemplate renders the template with the witness values and runs it as an in-package test
// of the real code through `go test -overlay`. The test must FAIL to count as a reproduction.
func runReplayTemplate(tmpl string, rf *replayFile, r *FuncResult, wit map[string]string) (bool, string) {
	// first line of the template: "// package-dir: server"
	pkgDir := ""
	for _, l := range strings.Split(tmpl, "\n") {
		if strings.HasPrefix(l, "// package-dir:") {
			pkgDir = strings.TrimSpace(strings.TrimPrefix(l, "// package-dir:"))
			break
		}
	}
	if pkgDir == "" {
		return false, "template lacks a '// package-dir:' line"
	}
	data := map[string]interface{}{}
	for k, v := range wit {
		data[k] = v
	}
	t, err := template.New("replay").Option("missingkey=error").Parse(tmpl)
	if err != nil {
		return false, "template: " + err.Error()
	}
	var buf bytes.Buffer
	if err := t.Execute(&buf, data); err != nil {
		var ks []string
		for k := range wit {
			ks = append(ks, k)
		}
		sort.Strings(ks)
		return false, "template needs a witness the model does not provide: " + err.Error() + " (have " + strings.Join(ks, ",") + ")"
	}
	rf.Package = pkgDir
	rf.TestName = "TestGvcReplay"
	rf.TestSource = buf.String()
	ok, out := execReplay(pkgDir, rf.TestName, rf.TestSource)
	return ok, out
}

func execReplay(pkgDir, testName, src string) (bool, string) {
	tmp, err := os.MkdirTemp("", "gvc-replay-")
	if err != nil {
		return false, err.Error()
	}
	defer os.RemoveAll(tmp)
	tf := filepath.Join(tmp, "zz_gvc_replay_test.go")
	os.WriteFile(tf, []byte(src), 0o644)
	ov := map[string]map[string]string{"Replace": {filepath.Join(repoDir, pkgDir, "zz_gvc_replay_test.go"): tf}}
	ob, _ := json.Marshal(ov)
	of := filepath.Join(tmp, "overlay.json")
	os.WriteFile(of, ob, 0o644)
	cmd := exec.Command("bash", "-c", fmt.Sprintf("ulimit -v 4000000; cd %s && go test -overlay %s -vet=off -count=1 -timeout 60s -run '^%s$' ./%s 2>&1", repoDir, of, testName, pkgDir))
	cmd.Env = append(os.Environ(), "GOTOOLCHAIN=auto", "GOFLAGS=-mod=mod")
	t0 := time.Now()
	out, err := cmd.CombinedOutput()
	s := string(out)
	if len(s) > 4000 {
		s = s[:4000] + "\n...[truncated]"
	}
	s += fmt.Sprintf("\n(replay took %.1fs)", time.Since(t0).Seconds())
	// a reproduction is a test that ran and failed with our marker
	if err != nil && strings.Contains(s, "GVC-REPLAY-VIOLATION") {
		return true, s
	}
	return false, s
}

func rerunReplay(path string) int {
	b, err := os.ReadFile(path)
	if err != nil {
		fmt.Fprintln(os.Stderr, err)
		return 2
	}
	var rf replayFile
	if err := json.Unmarshal(b, &rf); err != nil {
		fmt.Fprintln(os.Stderr, err)
		return 2
	}
	fmt.Printf("obligation: %s\nclause: %s\nsource: %s\nsolver: %s (%s)\n", rf.Obligation, rf.Clause, rf.Source, rf.Solver, rf.Status)
	if rf.TestSource == "" {
		fmt.Println("no executable replay recorded:", rf.ReplayOut)
		return 1
	}
	ok, out := execReplay(rf.Package, rf.TestName, rf.TestSource)
	fmt.Println(out)
	if ok {
		fmt.Printf("VIOLATION property=%s replay=%s\n", rf.Property, path)
		return 1
	}
	fmt.Println("replay did not reproduce a violation on the current tree")
	return 0
}

func rawWitness(m map[string]string) map[string]string {
	out := map[string]string{}
	for k, v := range m {
		if strings.HasPrefix(k, "wit$") {
			out[k] = v
		}
	}
	return out
}

// anotherModel asks for a counterexample whose witness values differ from the blocked ones.
func anotherModel(tmpl string, r *FuncResult, o *Obligation, blocked []map[string]string) map[string]string {
	x := r.X
	var extra []Term
	for _, b := range blocked {
		var diffs []Term
		for k, v := range b {
			so, ok := x.u.declared[k]
			if !ok {
				continue
			}
			diffs = append(diffs, Not(Term{fmt.Sprintf("(= %s %s)", k, v), SBool}))
			_ = so
		}
		if len(diffs) > 0 {
			extra = append(extra, Or(diffs...))
		}
	}
	if len(extra) == 0 {
		return nil
	}
	return solveWith(tmpl, r, o, extra)
}

// preferredModel re-solves the failed obligation under the template's "// prefer:" constraints.
func preferredModel(tmpl string, r *FuncResult, o *Obligation) map[string]string {
	var prefs []string
	for _, l := range strings.Split(tmpl, "\n") {
		if strings.HasPrefix(l, "// prefer:") {
			prefs = append(prefs, strings.TrimSpace(strings.TrimPrefix(l, "// prefer:")))
		}
	}
	if len(prefs) == 0 {
		return nil
	}
	x := r.X
	var extra []Term
	func() {
		defer func() { recover() }()
		env := x.envFor(x.topFrame, x.topFrame.entry, x.topFrame.entry)
		env.bindLets(r.Contract)
		for _, p := range prefs {
			e, err := ParseExpr(p)
			if err != nil {
				continue
			}
			t, err := env.Bool(e)
			if err != nil {
				continue
			}
			extra = append(extra, t)
		}
	}()
	if len(extra) == 0 {
		return nil
	}
	return solveWith(tmpl, r, o, extra)
}

func solveWith(tmpl string, r *FuncResult, o *Obligation, extra []Term) map[string]string {
	x := r.X
	// keep the template's preferences when asking for further models
	func() {
		defer func() { recover() }()
		env := x.envFor(x.topFrame, x.topFrame.entry, x.topFrame.entry)
		env.bindLets(r.Contract)
		for _, l := range strings.Split(tmpl, "\n") {
			if strings.HasPrefix(l, "// prefer:") {
				if e, err := ParseExpr(strings.TrimSpace(strings.TrimPrefix(l, "// prefer:"))); err == nil {
					if t, err := env.Bool(e); err == nil {
						extra = append(extra, t)
					}
				}
			}
		}
	}()
	o2 := *o
	o2.NCmds = len(x.u.cmds)
	o2.PC = And(append([]Term{o.PC}, extra...)...)
	tmp, err := os.MkdirTemp("", "gvc-pref-")
	if err != nil {
		return nil
	}
	defer os.RemoveAll(tmp)
	for _, relaxed := range []bool{false, true} {
		q := x.u.Query(&o2, true, relaxed)
		f := filepath.Join(tmp, fmt.Sprintf("q%v.smt2", relaxed))
		os.WriteFile(f, []byte(q), 0o644)
		out, _ := exec.Command("z3-new", "-smt2", "-t:8000", f).CombinedOutput()
		if strings.HasPrefix(string(out), "sat") {
			return parseModel(string(out))
		}
	}
	return nil
}
