package main

import (
	"fmt"
	"go/token"
	"go/types"
	"os"
	"sort"
	"strings"

	"golang.org/x/tools/go/packages"
	"golang.org/x/tools/go/ssa"
	"golang.org/x/tools/go/ssa/ssautil"
)

// Program is the loaded repository: typed syntax + SSA (naive form) of the target packages.
type Program struct {
	Fset  *token.FileSet
	Pkgs  []*packages.Package
	Prog  *ssa.Program
	SPkgs []*ssa.Package
	Funcs map[string]*ssa.Function // by String()
	ByPath map[string]*packages.Package
}

func LoadProgram(repo string, patterns []string) (*Program, error) {
	cfg := &packages.Config{Mode: packages.LoadAllSyntax, Dir: repo, BuildFlags: []string{"-tags=verif"},
		Env: append(os.Environ(), "PATH=/opt/veriftools/go1.26.8/bin:"+os.Getenv("PATH"), "GOFLAGS=-mod=mod", "GOPROXY=off", "GOSUMDB=off", "GOTOOLCHAIN=local")}
	pkgs, err := packages.Load(cfg, patterns...)
	if err != nil {
		return nil, err
	}
	nerr := 0
	packages.Visit(pkgs, nil, func(p *packages.Package) {
		for _, e := range p.Errors {
			fmt.Fprintf(os.Stderr, "load error: %v\n", e)
			nerr++
		}
	})
	if nerr > 0 {
		return nil, fmt.Errorf("%d package load errors", nerr)
	}
	prog, spkgs := ssautil.Packages(pkgs, ssa.NaiveForm|ssa.GlobalDebug)
	p := &Program{Fset: prog.Fset, Pkgs: pkgs, Prog: prog, SPkgs: spkgs, Funcs: map[string]*ssa.Function{}, ByPath: map[string]*packages.Package{}}
	for _, sp := range spkgs {
		if sp != nil {
			sp.Build()
		}
	}
	packages.Visit(pkgs, nil, func(pk *packages.Package) { p.ByPath[pk.PkgPath] = pk })
	for fn := range ssautil.AllFunctions(prog) {
		if fn.Synthetic != "" && fn.Blocks == nil {
			continue
		}
		p.Funcs[fn.String()] = fn
	}
	// methods that are only ever called through an interface are not reachable for AllFunctions: add the method
	// sets of every named type of the target packages
	for _, sp := range spkgs {
		if sp == nil {
			continue
		}
		for _, mem := range sp.Members {
			tm, ok := mem.(*ssa.Type)
			if !ok {
				continue
			}
			for _, t := range []types.Type{tm.Type(), types.NewPointer(tm.Type())} {
				if types.IsInterface(t) {
					continue
				}
				ms := prog.MethodSets.MethodSet(t)
				for i := 0; i < ms.Len(); i++ {
					if fn := prog.MethodValue(ms.At(i)); fn != nil && fn.Blocks != nil {
						if _, have := p.Funcs[fn.String()]; !have && fn.Synthetic == "" {
							p.Funcs[fn.String()] = fn
						}
					}
				}
			}
		}
	}
	return p, nil
}

func (p *Program) FindFuncs(substr string) []*ssa.Function {
	var out []*ssa.Function
	for k, f := range p.Funcs {
		if strings.Contains(k, substr) {
			out = append(out, f)
		}
	}
	sort.Slice(out, func(i, j int) bool { return out[i].String() < out[j].String() })
	return out
}

// LookupType resolves "pkg.Name" / "Name" (relative to pkg) / basic type names / pointer prefixes.
func (p *Program) LookupType(name string, rel *types.Package) (types.Type, error) {
	if strings.HasPrefix(name, "*") {
		t, err := p.LookupType(name[1:], rel)
		if err != nil {
			return nil, err
		}
		return types.NewPointer(t), nil
	}
	if strings.HasPrefix(name, "[]") {
		t, err := p.LookupType(name[2:], rel)
		if err != nil {
			return nil, err
		}
		return types.NewSlice(t), nil
	}
	if obj := types.Universe.Lookup(name); obj != nil {
		if tn, ok := obj.(*types.TypeName); ok {
			return tn.Type(), nil
		}
	}
	if strings.HasPrefix(name, "map[") {
		depth, j := 0, -1
		for i := 3; i < len(name); i++ {
			if name[i] == '[' {
				depth++
			} else if name[i] == ']' {
				depth--
				if depth == 0 {
					j = i
					break
				}
			}
		}
		if j > 0 {
			kt, err := p.LookupType(strings.TrimSpace(name[4:j]), rel)
			if err != nil {
				return nil, err
			}
			vt, err := p.LookupType(strings.TrimSpace(name[j+1:]), rel)
			if err != nil {
				return nil, err
			}
			return types.NewMap(kt, vt), nil
		}
	}
	if strings.ReplaceAll(name, " ", "") == "struct{}" {
		return types.NewStruct(nil, nil), nil
	}
	if strings.HasPrefix(name, "fieldtype(") && strings.HasSuffix(name, ")") {
		// fieldtype(T.f): the declared type of field f of struct type T (a way to name anonymous types)
		inner := name[len("fieldtype(") : len(name)-1]
		i := strings.LastIndex(inner, ".")
		if i < 0 {
			return nil, fmt.Errorf("fieldtype(%s): want fieldtype(T.f)", inner)
		}
		ot, err := p.LookupType(inner[:i], rel)
		if err != nil {
			return nil, err
		}
		st, ok := ot.Underlying().(*types.Struct)
		if !ok {
			return nil, fmt.Errorf("fieldtype(%s): %s is not a struct", inner, inner[:i])
		}
		for fi := 0; fi < st.NumFields(); fi++ {
			if st.Field(fi).Name() == inner[i+1:] {
				return st.Field(fi).Type(), nil
			}
		}
		return nil, fmt.Errorf("fieldtype(%s): no such field", inner)
	}
	if strings.HasPrefix(name, "elem(") && strings.HasSuffix(name, ")") {
		// elem(X): the element type of a map, slice, array, pointer or channel type
		xt, err := p.LookupType(name[len("elem(") : len(name)-1], rel)
		if err != nil {
			return nil, err
		}
		switch tt := xt.Underlying().(type) {
		case *types.Map:
			return tt.Elem(), nil
		case *types.Slice:
			return tt.Elem(), nil
		case *types.Array:
			return tt.Elem(), nil
		case *types.Pointer:
			return tt.Elem(), nil
		case *types.Chan:
			return tt.Elem(), nil
		}
		return nil, fmt.Errorf("%s: no element type", name)
	}
	pkgName, tname := "", name
	if i := strings.LastIndex(name, "."); i >= 0 {
		pkgName, tname = name[:i], name[i+1:]
	}
	var scope *types.Scope
	if pkgName == "" {
		if rel == nil {
			return nil, fmt.Errorf("type %s: no package context", name)
		}
		scope = rel.Scope()
	} else {
		full := pkgName
		if f, ok := shortPkgs[pkgName]; ok {
			full = f
		}
		if rel != nil {
			for _, imp := range rel.Imports() {
				if imp.Name() == pkgName || imp.Path() == pkgName {
					full = imp.Path()
				}
			}
		}
		pk, ok := p.ByPath[full]
		if !ok {
			return nil, fmt.Errorf("type %s: package %s not loaded", name, full)
		}
		scope = pk.Types.Scope()
	}
	obj := scope.Lookup(tname)
	if obj == nil {
		return nil, fmt.Errorf("type %s not found", name)
	}
	tn, ok := obj.(*types.TypeName)
	if !ok {
		return nil, fmt.Errorf("%s is not a type", name)
	}
	return tn.Type(), nil
}
