package main

import (
	"fmt"
	"go/token"
	"go/types"
	"math/big"
	"sort"
	"strings"
)

// Mode selects the integer semantics of one verification unit.
type Mode int

const (
	ModeInt Mode = iota // mathematical integers with explicit wrap-around for narrow unsigned types
	ModeBV              // every Go integer is a bit-vector of its width
)

// Obligation is one proof obligation: facts[0:NCmds] /\ PC /\ not Goal must be unsat.
type Obligation struct {
	Name   string // pkg.(Recv).Func#kind:ordinal
	Kind   string
	Func   string
	Pos    string
	Labels []string // property ids
	Text   string   // source text of the clause, if any
	NCmds  int
	PC     Term
	Goal   Term
	// results
	Status   string // proved | failed | undecided | error
	Solver   string
	TimeS    float64
	Model    map[string]string
	Output   string
	SMTBytes int
	Vacuity  bool // a reachability / consistency probe: expected sat
	KnownProbe *KnownFinding
}

// Unit collects the logical context for verifying one function.
type Unit struct {
	Name    string
	Mode    Mode
	cmds    []string
	declared map[string]Sort
	n       int
	Obls    []*Obligation
	kindSeq map[string]int
	Assumptions map[string]bool // trusted things reached
	strLits map[string]Term
	typeIDs map[string]int
	fset    *token.FileSet
	subFns  map[string]bool
	epochAlloc map[int]Term // allocation counter at the time a heap epoch began
	havocAlloc Term         // allocation counter valid for the havoc constants being created
	pendingAxiom map[string]pendingTyping
	sentinels  map[string]Val
	specDepth  int
	interest []Term // named inputs for models: name -> term
	interestNames []string
}

func NewUnit(name string, mode Mode, fset *token.FileSet) *Unit {
	u := &Unit{Name: name, Mode: mode, declared: map[string]Sort{}, kindSeq: map[string]int{},
		Assumptions: map[string]bool{}, strLits: map[string]Term{}, typeIDs: map[string]int{}, fset: fset,
		subFns: map[string]bool{}, epochAlloc: map[int]Term{}, pendingAxiom: map[string]pendingTyping{}, sentinels: map[string]Val{}}
	return u
}

func (u *Unit) IntSort() Sort {
	if u.Mode == ModeBV {
		return BVSort(64)
	}
	return SInt
}

func (u *Unit) emit(s string) { u.cmds = append(u.cmds, s) }

// Declare declares a constant once.
func (u *Unit) Declare(name string, so Sort) Term {
	if prev, ok := u.declared[name]; ok {
		if prev != so {
			panic(fmt.Sprintf("redeclare %s: %s vs %s", name, prev, so))
		}
		return Term{name, so}
	}
	u.declared[name] = so
	u.emit(fmt.Sprintf("(declare-const %s %s)", name, so))
	u.pendingAxiom[name] = pendingTyping{so, u.havocAlloc}
	if u.specDepth > 0 {
		u.needTyping(name)
	}
	return Term{name, so}
}

type pendingTyping struct {
	so    Sort
	alloc Term
}

// needTyping emits the typing axiom of a heap component version the first time a specification reads it.
// (Code-level loads get the same facts instantiated at the load site.)
func (u *Unit) needTyping(name string) {
	p, ok := u.pendingAxiom[name]
	if !ok {
		return
	}
	delete(u.pendingAxiom, name)
	save := u.havocAlloc
	u.havocAlloc = p.alloc
	u.typingAxiom(name, p.so)
	u.havocAlloc = save
}

// typingAxiom states the typing invariant of integer-valued heap components (mode int):
// every version of such a component only holds values within the range of its Go type.
func (u *Unit) typingAxiom(name string, so Sort) {
	base := name
	for _, sep := range []string{"@", ".havoc!", ".hv!"} {
		if i := strings.Index(base, sep); i >= 0 {
			base = base[:i]
		}
	}
	if compRefs[base] {
		var bound Term
		if i := strings.Index(name, "@"); i >= 0 {
			var ep int
			fmt.Sscanf(name[i+1:], "%d", &ep)
			bound = u.epochAlloc[ep]
		} else {
			bound = u.havocAlloc
		}
		if bound.Valid() {
			switch {
			case so == SInt:
				u.emit(fmt.Sprintf("(assert (<= (root %s) %s))", name, bound.S))
			case so == ArrSort(SInt, SInt):
				u.emit(fmt.Sprintf("(assert (forall ((tr Int)) (! (<= (root (select %s tr)) %s) :pattern ((select %s tr)))))", name, bound.S, name))
				if tid, ok := compDyn[base]; ok {
					u.emit(fmt.Sprintf("(assert (forall ((tr Int)) (! (or (= (select %s tr) 0) (and (= (dyn (select %s tr)) %d) (>= (root (select %s tr)) 1))) :pattern ((select %s tr)))))", name, name, tid, name, name))
				}
			case so.IsArray() && so.ElemSort().IsArray() && so.ElemSort().ElemSort() == SInt:
				ks := so.ElemSort().IdxSort()
				u.emit(fmt.Sprintf("(assert (forall ((tr Int) (tj %s)) (! (<= (root (select (select %s tr) tj)) %s) :pattern ((select (select %s tr) tj)))))", ks, name, bound.S, name))
				if tid, ok := compDyn[base]; ok {
					u.emit(fmt.Sprintf("(assert (forall ((tr Int) (tj %s)) (! (or (= (select (select %s tr) tj) 0) (and (= (dyn (select (select %s tr) tj)) %d) (>= (root (select (select %s tr) tj)) 1))) :pattern ((select (select %s tr) tj)))))", ks, name, name, tid, name, name))
				}
			}
		}
		return
	}
	ii, ok := compRanges[base]
	if !ok || u.Mode != ModeInt {
		return
	}
	lo, hi := BigLit(ii.min()).S, BigLit(ii.max()).S
	switch {
	case so == SInt:
		u.emit(fmt.Sprintf("(assert (and (<= %s %s) (<= %s %s)))", lo, name, name, hi))
	case so == ArrSort(SInt, SInt):
		u.emit(fmt.Sprintf("(assert (forall ((tr Int)) (! (and (<= %s (select %s tr)) (<= (select %s tr) %s)) :pattern ((select %s tr)))))", lo, name, name, hi, name))
	case so.IsArray() && so.ElemSort().IsArray() && so.ElemSort().ElemSort() == SInt:
		ks := so.ElemSort().IdxSort()
		u.emit(fmt.Sprintf("(assert (forall ((tr Int) (tj %s)) (! (and (<= %s (select (select %s tr) tj)) (<= (select (select %s tr) tj) %s)) :pattern ((select (select %s tr) tj)))))", ks, lo, name, name, hi, name))
	}
}

func (u *Unit) DeclareFun(name string, args []Sort, res Sort) {
	if _, ok := u.declared[name]; ok {
		return
	}
	u.declared[name] = res
	ss := make([]string, len(args))
	for i, a := range args {
		ss[i] = string(a)
	}
	u.emit(fmt.Sprintf("(declare-fun %s (%s) %s)", name, strings.Join(ss, " "), res))
}

func (u *Unit) Fresh(prefix string, so Sort) Term {
	u.n++
	return u.Declare(fmt.Sprintf("%s!%d", sanitize(prefix), u.n), so)
}

func isAtomic(t Term) bool {
	return !strings.HasPrefix(t.S, "(") || strings.HasPrefix(t.S, "(_ bv") || (strings.HasPrefix(t.S, "(- ") && !strings.Contains(t.S[3:], " "))
}

// Define names a term (keeps VCs small); atomic terms are returned as they are.
func (u *Unit) Define(prefix string, t Term) Term {
	if isAtomic(t) {
		return t
	}
	c := u.Fresh(prefix, t.So)
	u.emit(fmt.Sprintf("(assert (= %s %s))", c.S, t.S))
	return c
}

func (u *Unit) Assume(t Term) {
	if t.IsTrue() {
		return
	}
	u.emit(fmt.Sprintf("(assert %s)", t.S))
}

func (u *Unit) Trust(s string) { u.Assumptions[s] = true }

func (u *Unit) TrustedList() []string {
	var out []string
	for k := range u.Assumptions {
		out = append(out, k)
	}
	sort.Strings(out)
	return out
}

func (u *Unit) AddObligation(fn, kind string, pos token.Pos, labels []string, text string, pc, goal Term) *Obligation {
	key := fn + "#" + kind
	u.kindSeq[key]++
	o := &Obligation{
		Name: fmt.Sprintf("%s#%s:%d", fn, kind, u.kindSeq[key]), Kind: kind, Func: fn,
		Labels: labels, Text: text, NCmds: len(u.cmds), PC: pc, Goal: goal,
	}
	if pos.IsValid() && u.fset != nil {
		p := u.fset.Position(pos)
		o.Pos = fmt.Sprintf("%s:%d", p.Filename, p.Line)
	}
	u.Obls = append(u.Obls, o)
	return o
}

// ---------------------------------------------------------------------------
// integer types

type intInfo struct {
	w      int
	signed bool
}

func intInfoOf(t types.Type) (intInfo, bool) {
	b, ok := t.Underlying().(*types.Basic)
	if !ok {
		return intInfo{}, false
	}
	switch b.Kind() {
	case types.Int8:
		return intInfo{8, true}, true
	case types.Int16:
		return intInfo{16, true}, true
	case types.Int32, types.UntypedRune:
		return intInfo{32, true}, true
	case types.Int, types.Int64, types.UntypedInt:
		return intInfo{64, true}, true
	case types.Uint8:
		return intInfo{8, false}, true
	case types.Uint16:
		return intInfo{16, false}, true
	case types.Uint32:
		return intInfo{32, false}, true
	case types.Uint, types.Uint64, types.Uintptr:
		return intInfo{64, false}, true
	}
	return intInfo{}, false
}

func (ii intInfo) min() *big.Int {
	if !ii.signed {
		return big.NewInt(0)
	}
	return new(big.Int).Neg(pow2(ii.w - 1))
}
func (ii intInfo) max() *big.Int {
	if !ii.signed {
		return new(big.Int).Sub(pow2(ii.w), big.NewInt(1))
	}
	return new(big.Int).Sub(pow2(ii.w-1), big.NewInt(1))
}

func (u *Unit) sortOfInt(ii intInfo) Sort {
	if u.Mode == ModeBV {
		return BVSort(ii.w)
	}
	return SInt
}

// IntConst builds a constant of the given integer type.
func (u *Unit) IntConst(n *big.Int, ii intInfo) Term {
	if u.Mode == ModeBV {
		return BVLit(n, ii.w)
	}
	return BigLit(n)
}

func (u *Unit) IntC(n int64) Term { // constant of Go type int
	return u.IntConst(big.NewInt(n), intInfo{64, true})
}

// RangeFact returns the type-range constraint for a value of integer type (true in bv mode).
func (u *Unit) RangeFact(t Term, ii intInfo) Term {
	if u.Mode == ModeBV {
		return True
	}
	return And(Le(BigLit(ii.min()), t), Le(t, BigLit(ii.max())))
}

// wrap reduces a mathematical integer into the range of the type.
func (u *Unit) wrap(t Term, ii intInfo) Term {
	if !ii.signed {
		return App("mod", SInt, t, BigLit(pow2(ii.w)))
	}
	// signed: ((t + 2^(w-1)) mod 2^w) - 2^(w-1)
	h := BigLit(pow2(ii.w - 1))
	return App("-", SInt, App("mod", SInt, App("+", SInt, t, h), BigLit(pow2(ii.w))), h)
}

func constOf(t Term) (*big.Int, bool) {
	s := t.S
	if strings.HasPrefix(s, "(_ bv") {
		var v string
		var w int
		fmt.Sscanf(s, "(_ bv%s %d)", &v, &w)
		n, ok := new(big.Int).SetString(v, 10)
		return n, ok
	}
	if strings.HasPrefix(s, "(- ") {
		n, ok := new(big.Int).SetString(strings.TrimSuffix(s[3:], ")"), 10)
		if ok {
			return n.Neg(n), true
		}
		return nil, false
	}
	n, ok := new(big.Int).SetString(s, 10)
	return n, ok
}

// ArithResult carries the result of an arithmetic operation and an optional
// no-overflow side condition (mode int, wide types only).
type ArithResult struct {
	T        Term
	NoOvf    Term // True if none
}

// BinArith implements Go's integer binary operators for type ii.
func (u *Unit) BinArith(op token.Token, a, b Term, ii intInfo, bInfo intInfo) (ArithResult, error) {
	if u.Mode == ModeBV {
		return u.binBV(op, a, b, ii, bInfo)
	}
	res := ArithResult{NoOvf: True}
	wide := ii.w == 64 || ii.signed
	fin := func(t Term) ArithResult {
		if wide {
			res.T = t
			res.NoOvf = And(Le(BigLit(ii.min()), t), Le(t, BigLit(ii.max())))
			return res
		}
		res.T = u.wrap(t, ii)
		return res
	}
	switch op {
	case token.ADD:
		return fin(App("+", SInt, a, b)), nil
	case token.SUB:
		return fin(App("-", SInt, a, b)), nil
	case token.MUL:
		return fin(App("*", SInt, a, b)), nil
	case token.QUO:
		// Go truncates toward zero; SMT div is floor for positive divisor.
		if !ii.signed {
			res.T = App("div", SInt, a, b)
			return res, nil
		}
		q := Ite(Ge(a, IntLit(0)),
			Ite(Gt(b, IntLit(0)), App("div", SInt, a, b), App("-", SInt, App("div", SInt, a, App("-", SInt, b)))),
			Ite(Gt(b, IntLit(0)), App("-", SInt, App("div", SInt, App("-", SInt, a), b)), App("div", SInt, App("-", SInt, a), App("-", SInt, b))))
		res.T = q
		return res, nil
	case token.REM:
		if !ii.signed {
			res.T = App("mod", SInt, a, b)
			return res, nil
		}
		absb := Ite(Ge(b, IntLit(0)), b, App("-", SInt, b))
		r := Ite(Ge(a, IntLit(0)), App("mod", SInt, a, absb), App("-", SInt, App("mod", SInt, App("-", SInt, a), absb)))
		res.T = r
		return res, nil
	case token.SHL:
		if k, ok := constOf(b); ok && k.IsInt64() && k.Int64() < 256 {
			t := App("*", SInt, a, BigLit(pow2(int(k.Int64()))))
			if wide {
				// shifts silently discard bits: wrap rather than demand no overflow
				res.T = u.wrap(t, ii)
				return res, nil
			}
			res.T = u.wrap(t, ii)
			return res, nil
		}
	case token.SHR:
		if k, ok := constOf(b); ok && k.IsInt64() && k.Int64() < 256 {
			res.T = App("div", SInt, a, BigLit(pow2(int(k.Int64()))))
			return res, nil
		}
	case token.AND:
		for _, p := range [][2]Term{{a, b}, {b, a}} {
			if k, ok := constOf(p[1]); ok && k.Sign() >= 0 {
				k1 := new(big.Int).Add(k, big.NewInt(1))
				if k1.BitLen()-1 >= 0 && new(big.Int).And(k1, k).Sign() == 0 && !ii.signed { // k = 2^m-1
					res.T = App("mod", SInt, p[0], BigLit(k1))
					return res, nil
				}
			}
		}
	}
	if ka, ok := constOf(a); ok {
		if kb, ok2 := constOf(b); ok2 {
			var r *big.Int
			switch op {
			case token.AND:
				r = new(big.Int).And(ka, kb)
			case token.OR:
				r = new(big.Int).Or(ka, kb)
			case token.XOR:
				r = new(big.Int).Xor(ka, kb)
			case token.AND_NOT:
				r = new(big.Int).AndNot(ka, kb)
			}
			if r != nil {
				res.T = BigLit(r)
				return res, nil
			}
		}
	}
	return res, fmt.Errorf("operator %s not expressible in mode int (use mode bv)", op)
}

func (u *Unit) binBV(op token.Token, a, b Term, ii intInfo, bInfo intInfo) (ArithResult, error) {
	res := ArithResult{NoOvf: True}
	so := BVSort(ii.w)
	// shifts: the shift count may have another width
	if op == token.SHL || op == token.SHR {
		bb := b
		bw := b.So.BVWidth()
		if bw < ii.w {
			bb = App(fmt.Sprintf("(_ zero_extend %d)", ii.w-bw), so, b)
		} else if bw > ii.w {
			// saturate: if b >= w result is 0 / sign
			low := App(fmt.Sprintf("(_ extract %d 0)", ii.w-1), so, b)
			big_ := App("bvuge", SBool, b, BVLit(big.NewInt(int64(ii.w)), bw))
			bb = Ite(big_, BVLit(big.NewInt(int64(ii.w)), ii.w), low)
		}
		switch {
		case op == token.SHL:
			res.T = App("bvshl", so, a, bb)
		case ii.signed:
			res.T = App("bvashr", so, a, bb)
		default:
			res.T = App("bvlshr", so, a, bb)
		}
		return res, nil
	}
	var name string
	switch op {
	case token.ADD:
		name = "bvadd"
	case token.SUB:
		name = "bvsub"
	case token.MUL:
		name = "bvmul"
	case token.QUO:
		name = "bvudiv"
		if ii.signed {
			name = "bvsdiv"
		}
	case token.REM:
		name = "bvurem"
		if ii.signed {
			name = "bvsrem"
		}
	case token.AND:
		name = "bvand"
	case token.OR:
		name = "bvor"
	case token.XOR:
		name = "bvxor"
	case token.AND_NOT:
		res.T = App("bvand", so, a, App("bvnot", so, b))
		return res, nil
	default:
		return res, fmt.Errorf("bv: unsupported operator %s", op)
	}
	res.T = App(name, so, a, b)
	return res, nil
}

// Cmp implements integer comparisons.
func (u *Unit) Cmp(op token.Token, a, b Term, ii intInfo) Term {
	if op == token.EQL {
		return Eq(a, b)
	}
	if op == token.NEQ {
		return Neq(a, b)
	}
	if u.Mode == ModeBV {
		var n string
		switch op {
		case token.LSS:
			n = "bvult"
		case token.LEQ:
			n = "bvule"
		case token.GTR:
			n = "bvugt"
		case token.GEQ:
			n = "bvuge"
		}
		if ii.signed {
			n = strings.Replace(n, "bvu", "bvs", 1)
		}
		return App(n, SBool, a, b)
	}
	switch op {
	case token.LSS:
		return Lt(a, b)
	case token.LEQ:
		return Le(a, b)
	case token.GTR:
		return Gt(a, b)
	case token.GEQ:
		return Ge(a, b)
	}
	panic("Cmp: bad op " + op.String())
}

// Convert implements integer conversions.
func (u *Unit) Convert(t Term, from, to intInfo) Term {
	if u.Mode == ModeBV {
		switch {
		case from.w == to.w:
			return Term{t.S, BVSort(to.w)}
		case from.w > to.w:
			return App(fmt.Sprintf("(_ extract %d 0)", to.w-1), BVSort(to.w), t)
		case from.signed:
			return App(fmt.Sprintf("(_ sign_extend %d)", to.w-from.w), BVSort(to.w), t)
		default:
			return App(fmt.Sprintf("(_ zero_extend %d)", to.w-from.w), BVSort(to.w), t)
		}
	}
	// int mode: value preserved if the source range fits, else wrap
	if from.min().Cmp(to.min()) >= 0 && from.max().Cmp(to.max()) <= 0 {
		return t
	}
	if k, ok := constOf(t); ok {
		m := pow2(to.w)
		v := new(big.Int).Mod(k, m)
		if to.signed && v.Cmp(pow2(to.w-1)) >= 0 {
			v.Sub(v, m)
		}
		return BigLit(v)
	}
	return u.wrap(t, to)
}

// Neg / Not
func (u *Unit) Neg(t Term, ii intInfo) Term {
	if u.Mode == ModeBV {
		return App("bvneg", t.So, t)
	}
	r := App("-", SInt, t)
	if !ii.signed {
		return u.wrap(r, ii)
	}
	return r
}

func (u *Unit) BitNot(t Term, ii intInfo) (Term, error) {
	if u.Mode == ModeBV {
		return App("bvnot", t.So, t), nil
	}
	// ^x == -x-1 (signed) ; max-x (unsigned)
	if ii.signed {
		return App("-", SInt, App("-", SInt, t), IntLit(1)), nil
	}
	return App("-", SInt, BigLit(ii.max()), t), nil
}

// IntAdd on values of Go type int (lengths, indices) without overflow side condition.
func (u *Unit) IAdd(a, b Term) Term {
	if u.Mode == ModeBV {
		return App("bvadd", a.So, a, b)
	}
	return Add(a, b)
}
func (u *Unit) ISub(a, b Term) Term {
	if u.Mode == ModeBV {
		return App("bvsub", a.So, a, b)
	}
	return Sub(a, b)
}
func (u *Unit) ILe(a, b Term) Term { return u.Cmp(token.LEQ, a, b, intInfo{64, true}) }
func (u *Unit) ILt(a, b Term) Term { return u.Cmp(token.LSS, a, b, intInfo{64, true}) }

// ---------------------------------------------------------------------------
// preamble

func (u *Unit) Preamble() string {
	var b strings.Builder
	b.WriteString("(declare-sort Str 0)\n")
	is := u.IntSort()
	fmt.Fprintf(&b, "(declare-fun slen (Str) %s)\n", is)
	bs := u.sortOfInt(intInfo{8, false})
	fmt.Fprintf(&b, "(declare-fun sbyte (Str %s) %s)\n", is, bs)
	b.WriteString("(declare-fun scat (Str Str) Str)\n")
	fmt.Fprintf(&b, "(declare-fun ssub (Str %s %s) Str)\n", is, is)
	if u.Mode == ModeInt {
		b.WriteString("(assert (forall ((s Str)) (! (>= (slen s) 0) :pattern ((slen s)))))\n")
		b.WriteString("(assert (forall ((a Str) (b Str)) (! (= (slen (scat a b)) (+ (slen a) (slen b))) :pattern ((scat a b)))))\n")
		b.WriteString("(assert (forall ((s Str) (i Int)) (! (and (<= 0 (sbyte s i)) (<= (sbyte s i) 255)) :pattern ((sbyte s i)))))\n")
		b.WriteString("(assert (forall ((a Str) (b Str)) (! (=> (= (slen a) 0) (= (scat a b) b)) :pattern ((scat a b)))))\n")
		b.WriteString("(declare-fun sbytes (Str) (Array Int Int))\n(declare-fun mkstr ((Array Int Int) Int Int) Str)\n")
		b.WriteString("(assert (forall ((s Str)) (! (= (mkstr (sbytes s) 0 (slen s)) s) :pattern ((sbytes s)))))\n")
	}
	if u.Mode == ModeBV {
		// a Go string's length is a non-negative int
		b.WriteString("(assert (forall ((s Str)) (! (bvsge (slen s) #x0000000000000000) :pattern ((slen s)))))\n")
	}
	b.WriteString("(declare-fun root (Int) Int)\n")
	b.WriteString("(declare-fun dyn (Int) Int)\n")
	b.WriteString("(declare-fun kind (Int) Int)\n")
	b.WriteString("(declare-fun box.Str (Str) Int)\n(declare-fun unbox.Str (Int) Str)\n")
	b.WriteString("(assert (forall ((s Str)) (! (and (= (unbox.Str (box.Str s)) s) (= (root (box.Str s)) 0)) :pattern ((box.Str s)))))\n")
	b.WriteString("(declare-fun box.Int (Int) Int)\n(declare-fun unbox.Int (Int) Int)\n")
	b.WriteString("(assert (forall ((x Int)) (! (and (= (unbox.Int (box.Int x)) x) (= (root (box.Int x)) 0)) :pattern ((box.Int x)))))\n")
	b.WriteString("(assert (= (root 0) 0))\n")
	return b.String()
}

// StrLit returns the constant for a string literal, with its length and bytes axiomatised.
func (u *Unit) StrLit(s string) Term {
	if t, ok := u.strLits[s]; ok {
		return t
	}
	name := fmt.Sprintf("strlit!%d", len(u.strLits))
	t := u.Declare(name, SStr)
	// distinct from the other literals
	for o, ot := range u.strLits {
		if o != s {
			u.Assume(Neq(t, ot))
		}
	}
	u.strLits[s] = t
	u.Assume(Eq(Term{"(slen " + name + ")", u.IntSort()}, u.IntC(int64(len(s)))))
	if len(s) <= 64 {
		for i := 0; i < len(s); i++ {
			u.Assume(Eq(Term{fmt.Sprintf("(sbyte %s %s)", name, u.IntC(int64(i)).S), u.sortOfInt(intInfo{8, false})},
				u.IntConst(big.NewInt(int64(s[i])), intInfo{8, false})))
		}
	}
	return t
}

// TypeIDByName: id of a dynamic type known only by name (unexported types of other packages).
func (u *Unit) TypeIDByName(k string) Term {
	id, ok := u.typeIDs[k]
	if !ok {
		id = len(u.typeIDs) + 1
		u.typeIDs[k] = id
	}
	return IntLit(int64(id))
}

// TypeID gives a stable non-zero id per dynamic type (interface tags).
func (u *Unit) TypeID(t types.Type) Term {
	k := types.TypeString(t, nil)
	id, ok := u.typeIDs[k]
	if !ok {
		id = len(u.typeIDs) + 1
		u.typeIDs[k] = id
	}
	return IntLit(int64(id))
}
