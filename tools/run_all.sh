#!/bin/bash
# Runs the quick check of every claimed property and prints one summary line each.
cd /verif
for p in $(python3 -c "import json;print(' '.join(c['property_id'] for c in json.load(open('MANIFEST.json'))['checks']))"); do
  out=$(./check.sh $p quick 2>&1); code=$?
  echo "$p exit=$code $(echo "$out" | grep '^property=' | tail -1)"
  echo "$out" | grep -E "^VIOLATION|^ENGINE|^KNOWN|^WARNING" | head -5
done
