#!/bin/bash
# usage: try_seed.sh <patch.diff> <property> — applies a seeded change to /repo, runs the quick check, reverts.
set -u
cd /repo && git apply "$1" || { echo "patch does not apply"; exit 2; }
cd /verif && ./check.sh "$2" quick | tail -${3:-6}
echo "exit=$?"
cd /repo && git apply -R "$1" && git status --short | head -3
