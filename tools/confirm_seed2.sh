#!/bin/bash
# usage: confirm_seed2.sh <seed_dir>  — confirms a seeded change in a fresh scratch worktree of /repo HEAD:
#  (1) with the patch: builds, the existing tests of the touched packages pass, the demonstration fails;
#  (2) without the patch the demonstration passes. The worktree is removed afterwards.
set -u
seed=$(readlink -f "$1")
wt=$(mktemp -d /tmp/wt_confirm.XXXXXX)
git -C /repo worktree add -q --detach "$wt" HEAD || exit 2
trap 'git -C /repo worktree remove --force "$wt" >/dev/null 2>&1; rm -rf "$wt"' EXIT
cd "$wt"
pkg=$(python3 -c "import json;print(json.load(open('$seed/meta.json'))['pkg'])")
run=$(python3 -c "
import json,re
c=json.load(open('$seed/meta.json'))['demo_cmd']
c=re.sub(r'^cd [^&]*&&\s*','',c); c=re.sub(r'GOFLAGS=\S+\s*','',c); print(c)")
pkgs=$(python3 -c "
import json,os
m=json.load(open('$seed/meta.json'))
ds=sorted(set('./'+os.path.dirname(f)+'/' for f in m['files_changed'])|{'./$pkg/'})
print(' '.join(ds))")
demo=$(ls "$seed"/*_test.go | head -1)
export GOFLAGS=-mod=mod
git apply "$seed/patch.diff" || { echo "RESULT patch-does-not-apply"; exit 2; }
go build ./... || { echo "RESULT build-fails"; exit 2; }
echo "== existing tests with patch: $pkgs"
if go test -vet=off -count=1 $pkgs ./server/ 2>&1 | tail -5 | tee /dev/stderr | grep -q "^FAIL\|^---"; then echo "RESULT existing-tests-fail"; exit 1; fi
if go test -vet=off -count=1 -run TestMemory ./persistence/ 2>&1 | tail -3 | tee /dev/stderr | grep -q "^FAIL\|^---"; then echo "RESULT existing-tests-fail (TestMemory)"; exit 1; fi
cp "$demo" "$pkg/"
echo "== demo with patch (must fail)"
if ( eval "$run" ) >/tmp/confirm_demo.log 2>&1; then tail -3 /tmp/confirm_demo.log; echo "RESULT demo-passes-with-patch"; exit 1; fi
tail -4 /tmp/confirm_demo.log
git apply -R "$seed/patch.diff"
echo "== demo without patch (must pass)"
if ! ( eval "$run" ) >/tmp/confirm_demo.log 2>&1; then tail -5 /tmp/confirm_demo.log; echo "RESULT demo-fails-without-patch"; exit 1; fi
tail -1 /tmp/confirm_demo.log
echo "RESULT confirmed"
