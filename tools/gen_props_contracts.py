#!/usr/bin/env python3
"""Generates the call-site clauses of (*Properties).Unpack's contract: each property identifier is read by the decoder
of its MQTT data type (MQTT 5 table 2-4) into the field of that property. The table below is written from the
specification; the call-site ordinals are taken from the source (order of appearance in Unpack). Prints the clauses."""
import re, sys
SPEC = {  # id: (field, MQTT data type)
 0x01:("PayloadFormat","byte"),0x02:("MessageExpiry","u32"),0x03:("ContentType","utf8"),0x08:("ResponseTopic","utf8"),
 0x09:("CorrelationData","binary"),0x11:("SessionExpiryInterval","u32"),0x12:("AssignedClientID","utf8"),
 0x13:("ServerKeepAlive","u16"),0x15:("AuthMethod","utf8"),0x16:("AuthData","binary"),0x17:("RequestProblemInfo","byte"),
 0x18:("WillDelayInterval","u32"),0x19:("RequestResponseInfo","byte"),0x1A:("ResponseInfo","utf8"),
 0x1C:("ServerReference","utf8"),0x1F:("ReasonString","utf8"),0x21:("ReceiveMaximum","u16"),0x22:("TopicAliasMaximum","u16"),
 0x23:("TopicAlias","u16"),0x24:("MaximumQoS","byte"),0x25:("RetainAvailable","byte"),0x27:("MaximumPacketSize","u32"),
 0x28:("WildcardSubAvailable","byte"),0x29:("SubIDAvailable","byte"),0x2A:("SharedSubAvailable","byte")}
READER = {"byte":"propertyReadBool","u16":"propertyReadUint16","u32":"propertyReadUint32","utf8":"propertyReadUTF8String","binary":"propertyReadBinary"}
src = open(sys.argv[1] if len(sys.argv) > 1 else "/repo/pkg/packets/properties.go").read()
consts = {m.group(1): int(m.group(2), 16) for m in re.finditer(r"(Prop\w+)\s+byte = (0x[0-9A-Fa-f]+)", src)}
i = src.index("func (p *Properties) Unpack(")
body = src[i:src.index("\n}\n", i)]
count = {}
out = []
for m in re.finditer(r"case (Prop\w+):\n\s*p\.(\w+), err = (propertyRead\w+)\(p\.(\w+), newBufr, propType", body):
    cname, lhs, fn, arg = m.groups()
    pid = consts[cname]
    count[fn] = count.get(fn, 0) + 1
    field, ty = SPEC[pid]
    # the clause states what the SPECIFICATION wants for this identifier at this site
    KIND = {"propertyReadBool": 1, "propertyReadUint16": 2, "propertyReadUint32": 3, "propertyReadUTF8String": 4, "propertyReadBinary": 5}
    # at this call site: the identifier of the case (from the source), the field the SPECIFICATION table names for that
    # identifier, and the data type the reader called here decodes — which must be the data type of the identifier
    out.append(f"//@ call {fn}#{count[fn]} assert [C06] propType == {pid} && $arg0 == p.{field} && propKind(propType) == {KIND[fn]}")
kinds = {"byte": 1, "u16": 2, "u32": 3, "utf8": 4, "binary": 5}
expr = "0"
for pid in sorted(SPEC, reverse=True):
    expr = f"(id == {pid} ? {kinds[SPEC[pid][1]]} : {expr})"
print("// MQTT 5 table 2-4, data type of each property identifier: 1 byte, 2 two byte integer, 3 four byte integer, 4 UTF-8 string, 5 binary data")
print(f"//@ spec func propKind(id byte) int = {expr}")
print("\n".join(out))
