#!/bin/bash
# Re-records the reference obligation lists of all claimed properties (development aid; never a registered command).
cd /verif
for p in $(python3 -c "import json;print(' '.join(json.load(open('tools/claims.json')).keys()))"); do
  ./bin/gvc check --property $p --write-baseline 2>&1 | grep -E "^baseline|^property=|^ENGINE|^KNOWN" | cut -c1-250
done
