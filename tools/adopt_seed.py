#!/usr/bin/env python3
"""usage: adopt_seed.py <ID>... — copies a confirmed seeded change from /tmp/seed_out/<ID> into /verif/seeded/<ID>."""
import json, os, shutil, sys, glob
for sid in sys.argv[1:]:
    src, dst = f"/tmp/seed_out/{sid}", f"/verif/seeded/{sid}"
    os.makedirs(dst, exist_ok=True)
    m = json.load(open(f"{src}/meta.json"))
    m.setdefault("origin", "written by an independent sub-agent that saw only the property text and a scratch worktree without the contract files")
    m["confirmed"] = "tools/confirm_seed2.sh: in a fresh worktree of /repo HEAD — with the patch: go build ok, the existing tests of the touched packages, ./server and TestMemory pass, the demonstration fails; without the patch the demonstration passes"
    m["check_run"] = f"tools/try_seed.sh /verif/seeded/{sid}/patch.diff {m['property']}"
    json.dump(m, open(f"{dst}/meta.json", "w"), indent=1)
    shutil.copy(f"{src}/patch.diff", dst)
    for t in glob.glob(f"{src}/*_test.go"):
        shutil.copy(t, dst)
    print("adopted", sid)
