#!/bin/bash
# usage: confirm_seed.sh <seed_dir> <worktree> <pkgdir>   — confirms a seeded change in a scratch worktree:
#  (1) with the patch the package's existing tests pass, (2) the demo fails with the patch, (3) passes without.
set -u
seed=$1; wt=$2; pkg=${3:-$(cat $1/NOTE.txt | head -1 | tr -d " \n")}
cd "$wt" || exit 2
git checkout -q -- . ; git clean -fdq
demo=$(ls "$seed"/*_test.go | head -1)
run=$(python3 -c "
import json,re
c=json.load(open('$seed/meta.json'))['demo_cmd']
c=re.sub(r'^cd [^&]*&&\s*','',c)
c=re.sub(r'GOFLAGS=\S+\s*','',c)
print(c)")
echo "== existing tests with patch"
git apply "$seed/patch.diff" || { echo "PATCH DOES NOT APPLY"; exit 2; }
go build ./... || { echo "BUILD FAILS"; exit 2; }
GOFLAGS=-mod=mod go test -vet=off -count=1 ./$pkg/ 2>&1 | tail -2
echo "== demo with patch (must fail)"
cp "$demo" "$pkg/"
( eval "GOFLAGS=-mod=mod $run" ) 2>&1 | tail -4
echo "== demo without patch (must pass)"
git apply -R "$seed/patch.diff"
( eval "GOFLAGS=-mod=mod $run" ) 2>&1 | tail -2
rm -f "$pkg/$(basename $demo)"
git checkout -q -- . ; git clean -fdq
