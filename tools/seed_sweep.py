#!/usr/bin/env python3
"""usage: seed_sweep.py [ID ...] — runs every (or the named) seeded change against the quick check of its property
(tools/try_seed_iso.sh: isolated worktree, /repo untouched) and records the outcome in seeded/<id>/meta.json
(status_now / detected_by). Extra properties to try for a seed: meta.json "also_try"."""
import json, os, subprocess, sys, glob, re
ids = sys.argv[1:] or sorted(os.path.basename(d) for d in glob.glob('/verif/seeded/*'))
for sid in ids:
    d = f'/verif/seeded/{sid}'
    m = json.load(open(d + '/meta.json'))
    props = [m['property']] + m.get('also_try', [])
    env = dict(os.environ, MAXL='40')
    out = subprocess.run(['/verif/tools/try_seed_iso.sh', d] + props, capture_output=True, text=True, env=env).stdout
    viol = re.findall(r'^VIOLATION property=(\S+) replay=\S+ obligation=(\S+)( no-failing-input-found)?', out, re.M)
    bnd = re.findall(r'^VIOLATION property=(\S+) replay=\S+ bounded="([^"]+)" disagreements=(\d+)', out, re.M)
    eng = re.findall(r'^ENGINE-ERROR.*', out, re.M)
    if 'patch does not apply' in out:
        status = 'patch no longer applies to the repaired tree (the code it changed was rewritten by a fix: commit)'
        m['status_now'] = status
    elif bnd and not viol:
        m['status_now'] = 'detected by the bounded stand-in: ' + ', '.join(f'{n} ({k} disagreements, failing inputs from the run on the real code in the replay file)' for _, n, k in bnd) + f' (properties run: {" ".join(props)})'
    elif viol:
        obs = sorted({f"{o}" for _, o, _ in viol})
        rep = 'counterexample replayed on the real code' if any(not n for _, _, n in viol) else 'no-failing-input-found'
        m['status_now'] = 'detected: ' + ', '.join(obs[:6]) + (' …' if len(obs) > 6 else '') + f' ({rep}; properties run: {" ".join(props)})'
    elif eng:
        m['status_now'] = 'ENGINE-ERROR instead of a verdict: ' + eng[0][:200]
    else:
        m['status_now'] = 'MISSED (properties run: ' + ' '.join(props) + ')' + (': ' + m['why_missed'] if m.get('why_missed') else '')
    json.dump(m, open(d + '/meta.json', 'w'), indent=1)
    print(sid, '->', m['status_now'][:200], flush=True)
