#!/bin/bash
# usage: try_seed_iso.sh <seed_dir> <property>... — runs the quick check(s) against a seeded change in isolation:
# a scratch worktree of /repo HEAD with the patch applied (GVC_REPO) and a scratch copy of /verif (GVC_VERIF), so
# that neither /repo nor /verif/evidence is disturbed. Equivalent to tools/try_seed.sh (apply to /repo, check, revert).
set -u
seed=$(readlink -f "$1"); shift
wt=$(mktemp -d /tmp/wt_try.XXXXXX); vc=$(mktemp -d /tmp/verif_try.XXXXXX)
git -C /repo worktree add -q --detach "$wt" HEAD || exit 2
trap 'git -C /repo worktree remove --force "$wt" >/dev/null 2>&1; rm -rf "$wt" "$vc"' EXIT
git -C "$wt" apply "$seed/patch.diff" || { echo "patch does not apply"; exit 2; }
rsync -a --exclude .git --exclude bin --exclude replays --exclude seeded /verif/ "$vc"/
for p in "$@"; do
  out=$(GVC_REPO="$wt" GVC_VERIF="$vc" /verif/bin/gvc check --property "$p" --tier quick 2>&1); code=$?
  echo "$(basename $seed) vs $p exit=$code $(echo "$out" | grep '^property=' | tail -1)"
  echo "$out" | grep -E "^VIOLATION|^ENGINE|^KNOWN" | sed "s#$vc#/verif#g" | cut -c1-330 | head -${MAXL:-6}
  echo "$out" | grep -c "^WARNING" | sed 's/^/  warnings (obligations of the reference tree no longer generated): /' 
done
