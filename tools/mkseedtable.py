#!/usr/bin/env python3
"""Rewrites the table of seeded changes in DESIGN.md (between the SEEDTABLE markers) from /verif/seeded/*/meta.json."""
import json, glob, os, re
rows=[]
for d in sorted(glob.glob('/verif/seeded/*')):
    m=json.load(open(d+'/meta.json'))
    sid=os.path.basename(d)
    status=m.get('status_now') or m.get('detected_by') or m.get('status_when_first_tried','not tried yet')
    if m.get('status_when_first_tried')=='missed' and not m.get('status_now'):
        status='MISSED: '+m.get('why_missed','')
    summ=m['summary']
    summ=summ if len(summ)<230 else summ[:227]+'…'
    rows.append(f"| {sid} | {m['property']} | {summ.replace('|','/')} | {status.replace('|','/')} |")
tab="| seed | property | change | caught by (obligation) |\n|---|---|---|---|\n"+"\n".join(rows)
p='/verif/DESIGN.md'
s=open(p).read()
s=re.sub(r'<!-- SEEDTABLE -->.*?<!-- /SEEDTABLE -->','<!-- SEEDTABLE -->\n'+tab.replace('\\','\\\\')+'\n<!-- /SEEDTABLE -->',s,flags=re.S)
open(p,'w').write(s)
print(len(rows),'rows')
