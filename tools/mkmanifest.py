#!/usr/bin/env python3
"""Regenerates /verif/MANIFEST.json from tools/claims.json (claimed properties) and tools/not_applicable.json."""
import json, subprocess
props=[json.loads(l) for l in open('/verif/properties.jsonl')]
claimed=json.load(open('/verif/tools/claims.json'))
na_reasons=json.load(open('/verif/tools/not_applicable.json'))
hooks=subprocess.run(["git","-C","/repo","log","--format=%h %s"],capture_output=True,text=True).stdout.splitlines()
hook_commits=[l.split()[0] for l in hooks if l.split(" ",1)[1].startswith("verif:")]
checks=[]
for p in props:
    pid=p["id"]
    if pid not in claimed: continue
    c=claimed[pid]
    checks.append({
      "property_id": pid,
      "quick_cmd": f"./check.sh {pid} quick",
      "thorough_cmd": f"./check.sh {pid} thorough",
      "evidence_file": f"/verif/evidence/{pid}.json",
      "replay_cmd_template": "./bin/gvc check --replay {path}",
      "engine": "gvc",
      "level_claimed": {"category":"proof","text":c["text"],"design_ref":c["ref"]},
      "level_note": c["note"],
      "technique": "contract-based deductive verification: weakest-precondition VCs over go/ssa of the real code, discharged by z3/cvc5" + c.get("technique_extra", ""),
    })
na=[]
for p in props:
    if p["id"] in claimed: continue
    na.append({"property_id":p["id"],"reason":na_reasons.get(p["id"],"contracts for this property are not yet under verification in this revision (see DESIGN.md §5 for the planned obligations)")})
m={"version":1,
 "setup_cmd":"./setup.sh",
 "hooks":{"guard":"verif","enable":"go build -tags verif (the contract files /repo/<pkg>/verif_contracts*.go are comment-only and compiled only under this tag; gvc loads the packages with -tags=verif)",
          "baseline_off_cmd":"cd /repo && go test -vet=off -count=1 -timeout 25m ./...",
          "source_commits":hook_commits[::-1],"add_only":True},
 "engines":[{"name":"gvc","path":"/verif/gvc","serves_properties":[c["property_id"] for c in checks],"kind_free_text":"home-grown deductive verifier for Go: contracts in //@ comments, go/ssa (naive form) front end on /repo's working tree, component-heap memory model, weakest-precondition VC generation, one SMT query per obligation raced on z3 5.1.0 / z3 4.8.12 / cvc5 1.0, counterexample replay through go test -overlay"}],
 "checks":checks,
 "not_applicable":na,
 "notes":"Exit codes: 0 = all claimed obligations discharged; 1 = VIOLATION line(s); 2 = ENGINE-ERROR (unsupported construct or broken contract — never a verdict about the code)."}
json.dump(m,open('/verif/MANIFEST.json','w'),indent=1)
print("claimed:",[c["property_id"] for c in checks])
