#!/bin/bash
# usage: try_replay.sh <template> [scenario] — runs a replay template that needs no model values on /repo through
# go test -overlay; {{if eq .scenario "x"}}...{{end}} blocks are resolved for the given scenario.
t=$(readlink -f "$1"); sc=${2:-}; pkg=$(head -1 "$t" | sed 's/.*package-dir: *//')
d=$(mktemp -d /tmp/gvcreplay.XXXX)
python3 - "$t" "$sc" > $d/x_test.go <<'P'
import re,sys
s=open(sys.argv[1]).read(); sc=sys.argv[2]
def blk(m): return m.group(2) if m.group(1)==sc else ''
s=re.sub(r'\{\{if eq \.scenario "([^"]*)"\}\}(.*?)\{\{end\}\}', blk, s, flags=re.S)
print(s)
P
echo "{\"Replace\": {\"/repo/$pkg/zz_gvc_replay_test.go\": \"$d/x_test.go\"}}" > $d/ov.json
cd /repo && go test -overlay $d/ov.json -vet=off -timeout 60s -count=1 -run TestGvcReplay ./$pkg 2>&1 | tail -8
rm -rf $d
