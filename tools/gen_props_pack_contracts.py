#!/usr/bin/env python3
"""Generates the call-site clauses of (*Properties).Pack's contract: each field is written under the identifier of its
property with the writer of that property's MQTT data type (MQTT 5 table 2-4; UTF-8 strings and binary data share the
length-prefixed wire format). Identifier / field / type come from the table in gen_props_contracts.py (written from the
specification); the call-site ordinals are taken from the source (order of appearance in Pack)."""
import re, sys, importlib.util
spec = importlib.util.spec_from_file_location("g", "/verif/tools/gen_props_contracts.py")
src_gen = open("/verif/tools/gen_props_contracts.py").read()
SPEC = eval(re.search(r"SPEC = (\{.*?\n\s*0x28.*?\})", src_gen, re.S).group(1))
src = open(sys.argv[1] if len(sys.argv) > 1 else "/repo/pkg/packets/properties.go").read()
consts = {m.group(1): int(m.group(2), 16) for m in re.finditer(r"(Prop\w+)\s+byte = (0x[0-9A-Fa-f]+)", src)}
i = src.index("func (p *Properties) Pack(")
body = src[i:src.index("\n}\n", i)]
KIND = {"propertyWriteByte": "propKind(t) == 1", "propertyWriteUint16": "propKind(t) == 2", "propertyWriteUint32": "propKind(t) == 3", "propertyWriteString": "(propKind(t) == 4 || propKind(t) == 5)"}
count = {}
for m in re.finditer(r"(propertyWrite\w+)\((Prop\w+), p\.(\w+), newBufw\)", body):
    fn, cname, arg = m.groups()
    pid = consts[cname]
    count[fn] = count.get(fn, 0) + 1
    field = SPEC[pid][0]
    print(f"//@ call {fn}#{count[fn]} assert [C06] t == {pid} && i == p.{field} && {KIND[fn]}")
